"""C02 -- encoding is the exact inverse of decoding on every accepted instruction.

Domain: structural heads (pre x opcode x b2; complete in thorough, stratified in quick) x tails that exercise
don't-care bits (Imm20 high byte, selector spare bits, offsets 00/80/FF) x addresses.
Oracle: encode(decode(b, a), a) == b[:len]; re-decoding the re-encoded bytes gives the same text, length and
lifted IL; the text callback (which carries the encode/decode round-trip guard) accepts whenever the info
callback accepts.
"""

from __future__ import annotations

from typing import Any, Dict, List, Optional, Tuple

from ..core import Ctx, HarnessError, Report, Violation, mix32
from .. import gen_enc as G

PROPERTY = "C02"
RULE = ("structural heads (prefix|none) x opcode x second byte (complete in thorough; quick: 1/8 stratified sample, "
        "every (pre, opcode) pair covered) x 3 tails each (address hash, don't-care pattern bytes from "
        "{00,0F,10,7F,80,F0,FF}, all-ones) at boundary/random addresses. Non-trivial = accepted instruction with "
        ">= 1 operand byte; distinct = (pre, opcode, b2, tail pattern). Plus streamed decodes (every instruction yielded by "
        "fusion(iter_decode) re-encodes to the bytes consumed, length() == encoded length; non-trivial = an instruction "
        "following a prefixed one) and harness-scheduled pre-emption (round trip / guard verdict unchanged when another "
        "decode runs at a generated line of the first); whole-operand landmark values (vectors, window bases, the "
        "instruction's own and fall-through address) for every opcode; iter_encode of a streamed sequence into one "
        "encoder; the round trip right after a rejected operation (failing encode of a patched instruction, decode of "
        "invalid/truncated bytes; non-trivial = the operation was in fact rejected).")

PATTERN = (0x00, 0x0F, 0x10, 0x7F, 0x80, 0xF0, 0xFF)
ADDRS = (0x0, 0x0FFFE, 0x1FFFD, 0xFFFFB, 0x1000)


def _il_repr(data: bytes, addr: int) -> Any:
    from binja_test_mocks.mock_llil import MockLowLevelILFunction

    il = MockLowLevelILFunction()
    try:
        ln = G.arch().get_instruction_low_level_il(bytes(data), addr, il)
    except BaseException as exc:  # noqa: BLE001
        return ("EXC", type(exc).__name__)
    # label objects are fresh per lift: rename by first occurrence
    names: Dict[int, str] = {}
    out = []
    for node in il.ils:
        s = repr(node)
        out.append(s)
    txt = "\n".join(out)
    import re

    def ren(m: Any) -> str:
        k = m.group(0)
        if k not in names:
            names[k] = f"L{len(names)}"
        return names[k]

    txt = re.sub(r"0x[0-9a-f]{8,16}", ren, txt)  # object addresses in reprs, if any
    return (ln, txt)


def check_one(data: bytes, addr: int, rep: Report, tail_kind: str) -> None:
    from sc62015.pysc62015.instr import decode, encode, OPCODES
    from sc62015.pysc62015.instr.opcodes import InvalidInstruction

    a = G.arch()
    case = {"data": data.hex(), "addr": addr}
    try:
        info = a.get_instruction_info(bytes(data), addr)
    except BaseException:  # noqa: BLE001 - totality is C01's subject
        rep.case(None, ["info-exception"], None)
        return
    if info is None:
        rep.case(None, ["rejected"], None)
        return
    ln = int(info.length)
    body = bytes(data[:ln])
    pre = body[0] if body and body[0] in G.PRE_OPCODES else None
    op = body[1] if pre is not None and len(body) > 1 else body[0]
    where = f"opcode {op:02X}" + (" +PRE" if pre is not None else "")
    labels = ["accepted", f"tail:{tail_kind}", "prefixed" if pre is not None else "unprefixed"]

    # (1) exact inverse
    try:
        ins = decode(bytes(data), addr, OPCODES)
        re_enc = bytes(encode(ins, addr))
    except BaseException as exc:  # noqa: BLE001
        rep.violate(Violation("encode-total", where, f"encode raises {type(exc).__name__}", case,
                              f"decode ok (len {ln}) but encode raised {type(exc).__name__}: {str(exc)[:80]}"))
        rep.case(None, labels, None)
        return
    # (1b) analysing and lifting a decoded instruction must not change what it re-encodes / renders to
    try:
        from binaryninja import InstructionInfo
        from binja_test_mocks.mock_llil import MockLowLevelILFunction
        from binja_test_mocks.tokens import asm_str

        text0 = asm_str(ins.render())
        ins.analyze(InstructionInfo(), addr)
        ins.lift(MockLowLevelILFunction(), addr)
        re_enc2 = bytes(encode(ins, addr))
        text1 = asm_str(ins.render())
        if re_enc2 != re_enc or text1 != text0:
            rep.violate(Violation("exact-inverse", where, "analyze()/lift() changed what the decoded instruction encodes or renders to",
                                  case, f"before: {re_enc.hex()} '{text0}'  after analyze+lift: {re_enc2.hex()} '{text1}'"))
    except BaseException as exc:  # noqa: BLE001
        if type(exc).__name__ not in ("NotImplementedError", "InvalidInstruction"):
            rep.violate(Violation("encode-total", where, f"encode/render after analyze+lift raises {type(exc).__name__}", case,
                                  f"{body.hex()} @ {addr:#x}: {type(exc).__name__}: {str(exc)[:80]}"))
    if re_enc != body:
        # classify: which byte positions differ, and does the re-encoded form decode to the same text?
        pos = [i for i in range(min(len(re_enc), len(body))) if re_enc[i] != body[i]]
        if len(re_enc) != len(body):
            sym = f"re-encoded length {len(re_enc)} != consumed {len(body)}"
        else:
            t1 = G.text_of(body + G.NOP_PAD, addr)
            t2 = G.text_of(re_enc + G.NOP_PAD, addr)
            same = (t1 is not None and t2 is not None and t1 == t2)
            sym = f"byte(s) {pos} differ; " + ("same text (ignored bits not preserved)" if same else "different text")
        rep.violate(Violation("exact-inverse", where, sym, case, f"consumed {body.hex()} re-encoded {re_enc.hex()}"))
    else:
        # (2) decoding the re-encoded bytes again: same text, length, IL (decode determinism on equal bytes)
        t1 = G.text_of(bytes(data), addr)
        t2 = G.text_of(re_enc + bytes(data[ln:]), addr)
        if t1 != t2:
            rep.violate(Violation("redecode", where, "text/length differs on re-decode", case, f"{t1} vs {t2}"))
        i1 = _il_repr(bytes(data), addr)
        i2 = _il_repr(re_enc + bytes(data[ln:]), addr)
        if i1 != i2:
            rep.violate(Violation("redecode", where, "lifted IL differs on re-decode", case, f"{str(i1)[:120]} vs {str(i2)[:120]}"))
    # (3) the guard never demotes a valid instruction
    try:
        txt = a.get_instruction_text(bytes(data), addr)
    except BaseException:  # noqa: BLE001 - C01
        txt = "EXC"
    if txt is None:
        rep.violate(Violation("guard-demotes", where, "info accepts, text callback returns None", case,
                              f"{body.hex()} @ {addr:#x}: info.length={ln}, get_instruction_text -> None"))
    nt = ln > (2 if pre is not None else 1)
    key = f"{pre}:{op:02X}:{body[-1]:02X}:{tail_kind}:{len(body)}:{mix32(0, *body) & 0xFFFF}" if nt else None
    sample = None
    if rep.evaluations % 30011 == 5:
        sample = {"data": body.hex(), "addr": f"{addr:#x}", "re_encoded": re_enc.hex(), "text": (G.text_of(bytes(data), addr) or [None])[0]}
    rep.case(key, labels, sample)


def _tails(seed: int, pre: Optional[int], op: int, b2: int) -> List[Tuple[str, bytes]]:
    h = mix32(seed, 0 if pre is None else pre, op, b2, 99)
    pat = bytes(PATTERN[mix32(h, i) % len(PATTERN)] for i in range(5))
    return [("hash", G.hash_tail(seed, pre, op, b2, 5)), ("pattern", pat), ("ones", bytes([0xFF] * 5))]


def _shard(task: Tuple[int, int, int, str]) -> Report:
    shard, nshards, seed, tier = task
    rep = Report()
    quick = tier == "quick"
    idx = 0
    for pre in G.PRES:
        for op in range(256):
            for b2 in range(256):
                idx += 1
                if idx % nshards != shard:
                    continue
                if quick and (mix32(seed, 0 if pre is None else pre, op, b2) % 8) != 0:
                    continue
                h = mix32(seed, idx)
                addr = ADDRS[h % len(ADDRS)] if (h >> 4) % 3 else (h >> 8) & 0xFFFFF
                for kind, tail in _tails(seed, pre, op, b2):
                    check_one(G.head_bytes(pre, op, b2) + tail, addr, rep, kind)
    return rep


def _landmark_shard(task: Tuple[int, int, int, str]) -> Report:
    """Whole-operand landmark values (gen_enc.landmark_buffers) through the round-trip checks."""
    shard, nshards, seed, tier = task
    rep = Report()
    for op in range(256):
        if op % nshards != shard or G.is_pre(op):
            continue
        pres = ([None] + [G.PRE_OPCODES[mix32(seed, op, j) % len(G.PRE_OPCODES)] for j in range(3)]) if tier == "quick" else list(G.PRES)
        for pre in pres:
            h = mix32(seed, op, 0 if pre is None else pre, 0x1A)
            addr = ADDRS[h % len(ADDRS)] if (h >> 4) % 3 else (h >> 8) & 0xFFFFF
            for tag, data in G.landmark_buffers(pre, op, addr, seed):
                check_one(data, addr, rep, "landmark")
    return rep


def _sched_task(t: Tuple[str, str, int, int]) -> Report:
    """stream / preempt sub-checks shared with C01 (c01_sched.py), with C02's oracles."""
    from . import c01_sched as S
    from .c01 import _preload

    prop, kind, seed, n = t
    _preload()
    rep = Report()
    pool = [b for _p, b in G.sample_valid_encodings(mix32(seed, 0x51), 1500)[0]]
    for i in range(n):
        cs = mix32(seed, 0x52, i)
        if kind == "stream":
            buf, addr, _n = S.gen_stream(cs, pool)
            vs, n_ins, after_pre = S.stream_violations(prop, buf, addr)
            for v in vs:
                rep.violate(v)
            rep.case(f"stream:{buf.hex()}:{addr}" if after_pre >= 1 else None, ["kind:stream"],
                     {"stream": buf.hex(), "addr": f"{addr:#x}", "instructions": n_ins} if i % 400 == 1 else None)
        elif kind == "after-reject":
            # a rejected operation (failing encode of a patched instruction, decode of invalid / truncated bytes) must
            # leave no trace: the round trip of the next valid instruction gives every verdict it gives alone
            h = mix32(cs, 1)
            fk = S.FAIL_KINDS[h % len(S.FAIL_KINDS)]
            victim = pool[(h >> 4) % len(pool)]
            valid = pool[(h >> 16) % len(pool)]
            addr = ADDRS[(h >> 28) % len(ADDRS)]
            rejected = S.rejected_operation(fk, victim, addr, cs)
            tmp = Report()
            check_one(valid + bytes(5), addr, tmp, "after-reject:" + fk if rejected else "after-accepted-op")
            for v in tmp.violations:
                rep.violate(Violation(v.subcheck, v.where + f" [right after a rejected operation: {fk}]", v.symptom,
                                      {"kind": "after-reject", "fail_kind": fk, "victim": victim.hex(),
                                       "data": (valid + bytes(5)).hex(), "addr": addr, "seed": cs}, v.detail))
            rep.case(f"after-reject:{fk}:{victim.hex()}:{valid.hex()}" if rejected else None, ["kind:after-reject", "op-rejected" if rejected else "op-not-rejected"],
                     {"fail_kind": fk, "victim": victim.hex(), "then": valid.hex()} if i % 500 == 1 else None)
        else:
            h = mix32(cs, 1)
            a = [("text", "rt", "il")[h % 3], (pool[(h >> 4) % len(pool)] + bytes(4)).hex(), ADDRS[(h >> 20) % len(ADDRS)]]
            h2 = mix32(cs, 2)
            b = [("text", "info", "il", "rt", "emu")[h2 % 5], (pool[(h2 >> 4) % len(pool)] + bytes((h2 >> 24) % 3)).hex(),
                 ADDRS[(h2 >> 20) % len(ADDRS)]]
            kfrac = mix32(cs, 3) % 10000
            vs, inf = S.preempt_violations(prop, a, b, kfrac)
            for v in vs:
                rep.violate(v)
            rep.case(f"preempt:{a}:{b}:{kfrac}" if inf.get("lines", 0) > 0 and a[1] != b[1] else None, ["kind:preempt"],
                     {"a": a, "b": b, "line": inf.get("k"), "lines": inf.get("lines")} if i % 300 == 1 else None)
    return rep


# ---------------------------------------------------------------------------------------------- covfuzz phase
# Coverage-guided driver (vp_harness/covfuzz.py).  C02 has no Hypothesis phase of its own; the strategy below draws
# from the domain the enumeration already covers -- a 7..8-byte buffer (head + 5 tail bytes, exactly the buffer
# lengths _shard builds) at a boundary or arbitrary 20-bit address -- and feeds the SAME check_one.
COVFUZZ = True
COVFUZZ_INSTRUMENT = ["sc62015.pysc62015.instr"]
COVFUZZ_PREIMPORT = ["sc62015.arch", "sc62015.pysc62015.emulator", "binja_test_mocks.mock_llil",
                     "binja_test_mocks.eval_llil"]


def covfuzz_test(target: str, rep: Report, extra: Dict[str, Any]) -> Any:
    import hypothesis
    from hypothesis import given, settings, strategies as st, HealthCheck
    from .c01 import _preload

    _preload()
    if target != "rt":
        raise HarnessError(f"unknown covfuzz target {target!r}")

    @settings(max_examples=1, deadline=None, database=None, report_multiple_bugs=False,
              suppress_health_check=list(HealthCheck), phases=[hypothesis.Phase.generate])
    @given(st.binary(min_size=7, max_size=8), st.one_of(st.sampled_from(ADDRS), st.integers(0, 0xFFFFF)))
    def prop(data: bytes, addr: int) -> None:
        check_one(data, addr, rep, "covfuzz")

    return prop


def _covfuzz_phase(ctx: Ctx) -> Report:
    from .. import covfuzz as CF

    return CF.cov_fuzz_many("vp_harness.props.c02", "rt", [ctx.shard_seed(3000 + i) for i in range(16)],
                            ctx.pick(500, 9000), max_len=64, instrument=COVFUZZ_INSTRUMENT,
                            preimport=COVFUZZ_PREIMPORT, extra={}, budget_s=ctx.pick(20.0, 120.0), pad_len=256)


def run(ctx: Ctx) -> Report:
    from .. import covfuzz as CF

    if CF.only_phase() == "covfuzz":
        rep = _covfuzz_phase(ctx)
        rep.rule = RULE
        return rep
    nshards = 64
    reports = ctx.pmap(_shard, [(i, nshards, ctx.seed, ctx.tier) for i in range(nshards)])
    reports += ctx.pmap(_landmark_shard, [(i, 32, ctx.seed, ctx.tier) for i in range(32)])
    n_st, n_pe = ctx.pick(3200, 32000), ctx.pick(1600, 12000)
    reports += ctx.pmap(_sched_task, [(PROPERTY, k, ctx.shard_seed(400 + 10 * j + i), n // 8)
                                      for j, (k, n) in enumerate((("stream", n_st), ("preempt", n_pe), ("after-reject", ctx.pick(4000, 40000)))) for i in range(8)])
    rep = ctx.merge_reports(reports)
    if COVFUZZ:
        CF.merge_covfuzz(rep, _covfuzz_phase(ctx))
    rep.rule = RULE
    rep.exhaustive = ctx.tier == "thorough"
    rep.extra["structural_heads_total"] = len(G.PRES) * 65536
    rep.assumptions = [
        "domain = byte strings the info callback accepts (unfused PRE / invalid mode bytes are outside the quantifier)",
        "IL equality is structural equality of the mock LLIL node reprs",
    ]
    if COVFUZZ:
        rep.assumptions.append(CF.ASSUMPTION)
    return rep


def replay(ctx: Ctx, case: Dict[str, Any]) -> List[Violation]:
    if case.get("kind") == "after-reject":
        from . import c01_sched as S

        rep = Report()
        S.rejected_operation(case["fail_kind"], bytes.fromhex(case["victim"]), int(case["addr"]), int(case["seed"]))
        check_one(bytes.fromhex(case["data"]), int(case["addr"]), rep, "replay")
        return [Violation(v.subcheck, v.where + f" [right after a rejected operation: {case['fail_kind']}]", v.symptom, case, v.detail)
                for v in rep.violations]
    if case.get("kind") in ("stream", "preempt"):
        from . import c01_sched as S

        if case["kind"] == "stream":
            return S.stream_violations(PROPERTY, bytes.fromhex(case["data"]), int(case["addr"]))[0]
        return S.preempt_violations(PROPERTY, case["a"], case["b"], int(case["kfrac"]))[0]
    rep = Report()
    check_one(bytes.fromhex(case["data"]), int(case["addr"]), rep, "replay")
    return rep.violations
