"""C07 helper: history independence of the *Python* PC-E500 machine (pce500.PCE500Emulator, python backend).

The core-level subchecks of c07.py drive `Emulator` on a plain hash bus and never reach the machine wrapper: its memory
map with register-access telemetry, the IMEM access listener that feeds the keyboard FIFO / KEY latch, the interrupt
bookkeeping of `step()`.  Here a generated firmware-style *polling program* (main loop + interrupt handler in ROM; the
loop reads device registers -- KIL, KOL/KOH, ISR, IMR, LCD status -- over and over from the same PCs, strobes the
keyboard columns, acknowledges ISR bits, WAITs, HALTs) runs on one long-lived machine H while the host presses and
releases keys and the timers fire.  Three metamorphic partners, all instances of the property statement:

pymachine-history      before step n (generated split points, biased to the steps around host events) a machine built
                       from the same configuration receives H's registers, flags, memory and device state -- exactly
                       the fields `PCE500Emulator.save_snapshot` persists, copied attribute by attribute, and nothing
                       that `load_snapshot` itself discards or that is tracing/bookkeeping (register-access telemetry,
                       per-source counters, TEMP registers, call depth ...) -- and runs the following steps under the
                       same host events.  "Executing the same instruction bytes from the same registers, flags and
                       memory gives the same result ... regardless of what executed before": every step must agree.
pymachine-diagnostics  a twin T gets identical inputs plus calls of the documented *diagnostic* API at generated steps
                       (memory.clear_imem_access_tracking(), get_imem_access_tracking(), get_interrupt_stats(),
                       get_cpu_state(), get_keyboard_register_state(), get_performance_stats()).  "tracing state ...
                       never influence[s] architectural results": T must equal H after every step.
pymachine-run-slicing  a twin R is driven through the bulk entry point `run(n)` over a generated partition of the
                       same steps (chunk boundaries at every host event).  "Running a program for N+M steps is
                       indistinguishable from running it N steps and then M steps."

Nothing here models the machine: all three compare the machine with itself.
"""

from __future__ import annotations

import contextlib
import copy
import io
import json
import zlib
from typing import Any, Dict, List, Optional, Tuple

from ..core import HarnessError, Report, Violation, jhash
from ..gen_state import Stream
from .. import c12_rom as R
from .. import gen_enc as G
from .. import textparse as TP

INT = 0x100000
KOL, KOH, KIL, IMR, ISR, LCC = 0xF0, 0xF1, 0xF2, 0xFB, 0xFC, 0xFE
SCRATCH = 0x10
U_WIN = 32
LCD_STATUS = (0x2005, 0x2009, 0xA005, 0xA009)   # instruction/status reads of the two HD61202 chips (both windows)
KEYS = ("KEY_A", "KEY_Q", "KEY_F1", "KEY_ENTER", "KEY_SPACE", "KEY_0", "KEY_P", "KEY_UP_DOWN")
WINDOW = 14             # steps a fresh continuation is followed
WHERE = "py-machine: PCE500Emulator polling program with host key events and timers"

_CACHE: Dict[str, Any] = {}


def _mods() -> Tuple[Any, Any]:
    if not _CACHE:
        with contextlib.redirect_stdout(io.StringIO()):
            from pce500 import PCE500Emulator
            from sc62015.pysc62015.emulator import RegisterName
        _CACHE["E"] = PCE500Emulator
        _CACHE["R"] = RegisterName
    return _CACHE["E"], _CACHE["R"]


# --------------------------------------------------------------------------------------------------
# instruction templates (hand-encoded; self_test() checks each against the repository's decoder)


def enc(ins: List[Any]) -> bytes:
    k = ins[0]
    if k == "NOP":
        return b"\x00"
    if k == "LDIM":       # MV A,(n)
        return bytes([0x30, 0x80, ins[1] & 0xFF])
    if k == "STIM":       # MV (n),v
        return bytes([0x30, 0xCC, ins[1] & 0xFF, ins[2] & 0xFF])
    if k == "ANDIM":      # AND (n),v
        return bytes([0x30, 0x71, ins[1] & 0xFF, ins[2] & 0xFF])
    if k == "ORIM":       # OR (n),v
        return bytes([0x30, 0x79, ins[1] & 0xFF, ins[2] & 0xFF])
    if k == "STA":        # MV (n),A
        return bytes([0x30, 0xA0, ins[1] & 0xFF])
    if k == "LDABS":      # MV A,[lmn]
        a = int(ins[1])
        return bytes([0x88, a & 0xFF, (a >> 8) & 0xFF, (a >> 16) & 0x0F])
    if k == "PUSHUA":
        return b"\x28"
    if k == "INCA":
        return b"\x6c\x00"
    if k == "INCM":
        return bytes([0x30, 0x6D, ins[1] & 0xFF])
    if k == "WAIT":       # MV I,n ; WAIT  (two instructions)
        return bytes([0x0B, ins[1] & 0xFF, (ins[1] >> 8) & 0xFF, 0xEF])
    if k == "HALT":
        return b"\xde"
    if k == "RETI":
        return b"\x01"
    if k == "JRB":
        return bytes([0x13, ins[1] & 0xFF])
    raise ValueError(f"unknown template {k}")


_TESTS = [(["NOP"], ["NOP"], [1]), (["LDIM", KIL], ["MV"], [3]), (["LDIM", ISR], ["MV"], [3]), (["STIM", KOL, 0xFF], ["MV"], [4]),
          (["ANDIM", ISR, 0xFB], ["AND"], [4]), (["ORIM", IMR, 0x80], ["OR"], [4]), (["STA", SCRATCH], ["MV"], [3]),
          (["LDABS", 0x2005], ["MV"], [4]), (["PUSHUA"], ["PUSHU"], [1]), (["INCA"], ["INC"], [2]), (["INCM", SCRATCH], ["INC"], [3]),
          (["WAIT", 5], ["MV", "WAIT"], [3, 1]), (["HALT"], ["HALT"], [1]), (["RETI"], ["RETI"], [1]), (["JRB", 9], ["JR"], [2])]
_tested = False


def self_test() -> None:
    global _tested
    if _tested:
        return
    for ins, mns, lens in _TESTS:
        code = enc(ins)
        off = 0
        for mn, ln in zip(mns, lens):
            r = TP.tokens(code[off:] + G.NOP_PAD, R.MAIN)
            if r is None or TP.mnemonic(r[0]) != mn or r[1] != ln:
                raise HarnessError(f"C07 py-machine template {ins} {code.hex()} decodes as {r!r}, expected {mn}/{ln}")
            off += ln
        if off != len(code):
            raise HarnessError(f"C07 py-machine template {ins}: length mismatch")
    from pce500.keyboard_matrix import KEY_LOCATIONS

    for k in KEYS:
        if k not in KEY_LOCATIONS:
            raise HarnessError(f"C07 py-machine: key {k} unknown to the repository's key matrix")
    _tested = True


def n_instr(ins: List[Any]) -> int:
    return 2 if ins[0] == "WAIT" else 1


def build_rom(sc: Dict[str, Any]) -> bytes:
    body = b"".join(enc(i) for i in sc["main"])
    dist = len(body) + 2
    if dist > 0xFF:
        raise HarnessError("C07 py-machine: main loop too long")
    segs = [(R.MAIN, body + enc(["JRB", dist])),
            (R.HANDLER, b"".join(enc(i) for i in sc["handler"]) + enc(["RETI"])),
            (R.IRQ_VECTOR_ADDR, bytes([R.HANDLER & 0xFF, (R.HANDLER >> 8) & 0xFF, (R.HANDLER >> 16) & 0xFF])),
            (R.RESET_VECTOR_ADDR, bytes([R.MAIN & 0xFF, (R.MAIN >> 8) & 0xFF, (R.MAIN >> 16) & 0xFF]))]
    return R.image(segs)


# --------------------------------------------------------------------------------------------------
# machine adapter: set-up through the public API / the pokes the maintainers' own pce500 tests use


REGS = ("PC", "BA", "I", "X", "Y", "U", "S", "F")


class PyM:
    def __init__(self, sc: Dict[str, Any], rom: Optional[bytes] = None, tracing: Optional[str] = None) -> None:
        E, RN = _mods()
        self.RN = RN
        kw: Dict[str, Any] = {}
        if sc.get("card") is not None:
            kw["memory_card_present"] = bool(sc["card"])        # device configuration (constructor argument)
        if tracing in ("disasm", "both"):
            kw["disasm_trace"] = True                             # tracing flavours of the twin: constructor arguments
        if tracing in ("instr", "both"):
            kw["trace_enabled"] = True
        emu = E(perfetto_trace=False, save_lcd_on_exit=False, **kw)
        self.emu = emu
        emu.load_rom(rom if rom is not None else build_rom(sc))
        emu.reset()
        regs = emu.cpu.regs
        regs.set(RN.PC, R.MAIN)
        regs.set(RN.S, R.STACK_TOP)
        regs.set(RN.U, R.USTACK_TOP)
        regs.set(RN.BA, int(sc.get("ba0", 0x1234)))
        regs.set(RN.I, int(sc.get("i0", 1)))
        regs.set(RN.X, 0x0B8100)
        regs.set(RN.Y, 0x0B8200)
        regs.set(RN.F, int(sc.get("f0", 0)) & 0xFF)
        mti, sti = int(sc.get("mti", 0)), int(sc.get("sti", 0))
        emu._timer_enabled = bool(mti or sti)
        emu._timer_mti_period = mti
        emu._timer_sti_period = sti
        emu._timer_next_mti = emu.cycle_count + mti
        emu._timer_next_sti = emu.cycle_count + sti
        mem = emu.memory
        mem.write_byte(INT + KOL, int(sc.get("kol0", 0xFF)) & 0xFF)
        mem.write_byte(INT + KOH, int(sc.get("koh0", 0x07)) & 0xFF)
        fill = int(sc.get("imfill", 0))
        for i in range(0xEC):
            mem.write_byte(INT + i, ((i * 37) ^ (fill * 11) ^ 0x5A) & 0xFF)
        if sc.get("fast"):
            emu.fast_mode = True   # documented execution mode of PCE500Emulator.step (public attribute, set by the CLI)
        if sc.get("kbirq") is not None:
            emu._kb_irq_enabled = bool(sc["kbirq"])   # snapshot field; set the way test_snapshot_roundtrip.py does
        mem.write_byte(INT + ISR, int(sc.get("isr0", 0)) & 0xFF)
        mem.write_byte(INT + IMR, int(sc.get("imr0", 0)) & 0xFF)

    def observe(self, full: bool = False) -> Dict[str, Any]:
        emu, RN = self.emu, self.RN
        g = emu.cpu.regs.get
        ext = emu.memory.external_memory      # read directly: memory.read_byte() would be an access of its own
        n = len(ext)
        kb = emu.keyboard.snapshot_state()
        mx = kb.get("matrix", {}) if isinstance(kb, dict) else {}
        kbs = {"kol": mx.get("kol"), "koh": mx.get("koh"), "kil": mx.get("kil_latch"), "scan": mx.get("scan_enabled"),
               "pressed": sorted(mx.get("pressed_keys", [])),
               "keys": {k: v for k, v in sorted((mx.get("key_states") or {}).items())
                        if any(bool(x) for x in v.values())},
               "fifo": mx.get("fifo"), "head": mx.get("head"), "tail": mx.get("tail"),
               "lkol": kb.get("last_kol"), "lkoh": kb.get("last_koh")}   # last_kil is a read cache: not compared
        o = {
            "pc": int(g(RN.PC)), "s": int(g(RN.S)), "f": int(g(RN.F)) & 0xFF, "ba": int(g(RN.BA)), "i": int(g(RN.I)),
            "x": int(g(RN.X)), "y": int(g(RN.Y)), "u": int(g(RN.U)),
            "imr": ext[n - 256 + IMR], "isr": ext[n - 256 + ISR],
            "pw": 1 if bool(getattr(emu.cpu.state, "halted", False)) else 0,
            "ic": int(emu.instruction_count), "cyc": int(emu.cycle_count),
            "inint": bool(emu._in_interrupt), "pend": bool(emu._irq_pending), "lat": bool(emu._key_irq_latched),
            "nm": int(emu._timer_next_mti), "ns": int(emu._timer_next_sti),
            "fifo": [int(x) for x in emu.keyboard.fifo_snapshot()],
            "kb": jhash(kbs, 16),
            "stk": bytes(ext[R.STACK_TOP - R.STACK_WINDOW:R.STACK_TOP]).hex(),
            "ustk": bytes(ext[R.USTACK_TOP - U_WIN:R.USTACK_TOP]).hex(),
            "im": bytes(ext[n - 256:n]).hex(),
            "irqn": int(emu.irq_counts.get("total", 0)),     # label only (per-source counters are bookkeeping)
        }
        if full:
            o["ext"] = zlib.crc32(memoryview(ext)[:n - 256])
        return o

    def event(self, kind: str, arg: Any) -> None:
        emu = self.emu
        if kind == "key_down":
            emu.press_key(str(arg))
        elif kind == "key_up":
            emu.release_key(str(arg))
        elif kind == "on_down":
            emu.press_key("KEY_ON")
        elif kind == "on_up":
            emu.release_key("KEY_ON")
        else:
            raise ValueError(f"unknown event {kind}")

    def diag(self, op: str) -> bool:
        """False = a call that must be rejected was accepted (the twin is then not judged: the call changed state)."""
        emu = self.emu
        if op == "clear_imem_tracking":
            emu.memory.clear_imem_access_tracking()
        elif op == "get_imem_tracking":
            emu.memory.get_imem_access_tracking()
        elif op == "get_interrupt_stats":
            emu.get_interrupt_stats()
        elif op == "get_cpu_state":
            emu.get_cpu_state()
        elif op == "get_keyboard_register_state":
            emu.get_keyboard_register_state()
        elif op == "get_performance_stats":
            emu.get_performance_stats()
        # host operations the machine rejects (return value False / exception): must leave no trace
        elif op == "press_unknown_key":
            if emu.press_key("KEY_NO_SUCH_KEY"):
                return False
        elif op == "repress_pressed_key":
            held = sorted(emu.keyboard.get_pressed_keys())
            if held and emu.press_key(held[0]):
                return False
        elif op == "bad_memory_card_size":
            try:
                emu.load_memory_card(b"\x55" * 16, 12345)
            except ValueError:
                pass
            else:
                return False
        elif op == "load_missing_snapshot":
            try:
                emu.load_snapshot("/nonexistent/c07-no-such-snapshot.pcsnap")
            except FileNotFoundError:
                pass
            else:
                return False
        else:
            raise ValueError(f"unknown diagnostic op {op}")
        return True

    def close(self) -> None:
        try:
            self.emu.save_lcd_on_exit = False
            self.emu.close()
        except Exception:
            pass


DIAG_OPS = ("clear_imem_tracking", "clear_imem_tracking", "clear_imem_tracking", "get_imem_tracking", "get_interrupt_stats",
            "get_cpu_state", "get_keyboard_register_state", "get_performance_stats",
            "press_unknown_key", "repress_pressed_key", "bad_memory_card_size", "load_missing_snapshot")


def transfer(src: PyM, dst: PyM) -> None:
    """Registers, flags, memory and device state -- the fields PCE500Emulator.save_snapshot persists (python backend)
    minus what the property statement lists as never-influencing (TEMP registers, call_sub_level, call depth,
    tracing ids, counters) and what load_snapshot itself throws away (register-access telemetry)."""
    a, b = src.emu, dst.emu
    RN = src.RN
    b.memory.external_memory[:] = a.memory.external_memory
    for r in REGS:
        b.cpu.regs.set(getattr(RN, r), a.cpu.regs.get(getattr(RN, r)))
    b.cpu.state.halted = bool(getattr(a.cpu.state, "halted", False))
    b.keyboard.load_state(json.loads(json.dumps(a.keyboard.snapshot_state())))
    b.instruction_count = int(a.instruction_count)
    b.cycle_count = int(a.cycle_count)
    b._timer_enabled = bool(a._timer_enabled)
    b._timer_mti_period = int(a._timer_mti_period)
    b._timer_sti_period = int(a._timer_sti_period)
    b._timer_next_mti = int(a._timer_next_mti)
    b._timer_next_sti = int(a._timer_next_sti)
    b._irq_pending = bool(a._irq_pending)
    b._in_interrupt = bool(a._in_interrupt)
    b._irq_source = a._irq_source
    b._key_irq_latched = bool(a._key_irq_latched)
    b._last_imem_values = dict(a._last_imem_values)
    b._kb_irq_enabled = bool(a._kb_irq_enabled)
    b.fast_mode = bool(getattr(a, "fast_mode", False))


# --------------------------------------------------------------------------------------------------
# generator


def _device_read(st: Stream, bias: str) -> List[Any]:
    q = st.below(100)
    if bias == "kil":
        return ["LDIM", KIL] if q < 70 else (["LDIM", ISR] if q < 85 else ["LDIM", st.choice((KOL, KOH, IMR, LCC))])
    if bias == "isr":
        return ["LDIM", ISR] if q < 60 else (["LDIM", KIL] if q < 85 else ["LDIM", IMR])
    if bias == "lcd":
        return ["LDABS", st.choice(LCD_STATUS)] if q < 60 else (["LDIM", KIL] if q < 85 else ["LDIM", ISR])
    return st.choice((["LDIM", KIL], ["LDIM", ISR], ["LDIM", IMR], ["LDIM", KOL], ["LDIM", KOH], ["LDABS", st.choice(LCD_STATUS)]))


def _filler(st: Stream) -> List[Any]:
    q = st.below(100)
    if q < 22:
        return ["NOP"]
    if q < 34:
        return ["INCA"]
    if q < 44:
        return ["INCM", SCRATCH]
    if q < 56:
        return ["PUSHUA"]
    if q < 64:
        return ["STA", SCRATCH + 1 + st.below(4)]
    if q < 74:
        return ["STIM", KOL, st.choice((0xFF, 0xFF, 0x00, 0x01, 1 << st.below(8)))]
    if q < 80:
        return ["STIM", KOH, st.choice((0x07, 0x07, 0x00, 0x04, st.below(16)))]
    if q < 87:
        return ["ANDIM", ISR, st.choice((0xFB, 0xFB, 0xF7, 0xF0, 0xFE, 0xFD, 0x00))]
    if q < 91:
        return ["STIM", ISR, st.choice((0, 0, 4, 8, st.below(16)))]
    if q < 95:
        return ["WAIT", 1 + st.below(12)]
    if q < 97:
        return ["HALT"]
    return ["ORIM", ISR, 1 << st.below(4)]


def gen_case(st: Stream, thorough: bool = False) -> Dict[str, Any]:
    bias = st.choice(("kil", "kil", "kil", "isr", "lcd", "mixed"))
    style = st.choice(("tight", "tight", "scan", "busy"))
    main: List[List[Any]] = []
    if style == "tight":          # loop: MV A,(dev) ; JR loop   (plus at most one more instruction)
        main.append(_device_read(st, bias))
        if st.chance(1, 3):
            main.insert(st.below(2), _filler(st))
    elif style == "scan":         # strobe a column, read KIL, log it
        main.append(["STIM", KOL, st.choice((0xFF, 0x01, 1 << st.below(8)))])
        if st.chance(1, 2):
            main.append(["STIM", KOH, st.choice((0x07, 0x00, 0x04))])
        main.append(["LDIM", KIL])
        if st.chance(1, 2):
            main.append(st.choice((["PUSHUA"], ["STA", SCRATCH + 1])))
        if st.chance(1, 3):
            main.append(_device_read(st, bias))
    else:
        for _ in range(2 + st.below(5)):
            main.append(_device_read(st, bias) if st.chance(2, 5) else _filler(st))
        if not any(i[0] in ("LDIM", "LDABS") for i in main):
            main.insert(st.below(len(main) + 1), _device_read(st, bias))
    handler: List[List[Any]] = []
    for _ in range(st.below(4)):
        q = st.below(100)
        handler.append(["LDIM", KIL] if q < 30 else (["LDIM", ISR] if q < 45 else (["PUSHUA"] if q < 60 else
                       (["ANDIM", ISR, st.choice((0xFB, 0xF0, 0xF7, 0xFE, 0xFD))] if q < 80 else
                        (["STIM", ISR, 0] if q < 88 else (["INCM", SCRATCH] if q < 95 else ["ORIM", IMR, 0x80]))))))
    irq = st.choice(("masked", "masked", "key", "all", "timers"))
    imr0 = {"masked": st.choice((0x00, 0x00, 0x0F, 0x04)), "key": 0x80 | st.choice((0x04, 0x0C, 0x04)),
            "all": 0x8F, "timers": 0x80 | st.choice((0x03, 0x01, 0x02))}[irq]
    timers = st.choice(("off", "off", "off", "mti", "both"))
    mti = 0 if timers == "off" else 3 + st.below(30)
    sti = (5 + st.below(60)) if timers == "both" else 0
    if timers != "off" and st.chance(1, 4):
        main.insert(st.below(len(main) + 1), ["HALT"])     # idle until the next timer request
    per_iter = sum(n_instr(i) for i in main) + 1
    steps = min(90 if thorough else 64, max(24, per_iter * (6 + st.below(8))))
    # host events: key presses (held for a few steps or to the end), the ON key, several keys at once
    events: List[List[Any]] = []
    n_press = st.choice((1, 1, 1, 2, 2, 3, 0))
    for _ in range(n_press):
        key = st.choice(KEYS)
        a = 2 + st.below(max(1, steps - 6))
        if st.chance(1, 6):
            events.append([a, "on_down", None])
            if st.chance(1, 2):
                events.append([min(steps - 1, a + 1 + st.below(8)), "on_up", None])
            continue
        events.append([a, "key_down", key])
        if st.chance(2, 3):
            events.append([min(steps - 1, a + 1 + st.below(12)), "key_up", key])
    events.sort(key=lambda e: (e[0], e[1], str(e[2])))
    ev_steps = sorted({e[0] for e in events})
    # split points: around the events (the poll right after a key went down is where device state is live) + random
    cand: List[int] = []
    for k in ev_steps:
        cand += [k, k + 1, k + 2, k + per_iter, k + per_iter + 1]
    cand += [1 + st.below(steps - 1) for _ in range(3)]
    cand = sorted({c for c in cand if 1 <= c < steps})
    n_split = 8 if thorough else 5
    while len(cand) > n_split:
        cand.pop(st.below(len(cand)))
    # diagnostic calls on the twin: same neighbourhoods
    diag: List[List[Any]] = []
    for k in ev_steps:
        if st.chance(3, 4):
            diag.append([min(steps - 1, k + st.below(3)), st.choice(DIAG_OPS)])
    for _ in range(1 + st.below(3)):
        diag.append([st.below(steps), st.choice(DIAG_OPS)])
    diag.sort(key=lambda d: (d[0], d[1]))
    # run(n) partition: boundaries at every host event + a few more
    bounds = sorted(set(ev_steps) | {1 + st.below(steps - 1) for _ in range(st.below(4))})
    bounds = [b for b in bounds if 0 < b < steps]
    return {"kind": "pymachine-history", "main": main, "handler": handler, "imr0": imr0,
            "isr0": 0 if st.chance(4, 5) else st.below(16), "f0": st.below(4), "ba0": st.word(), "i0": 1 + st.below(9),
            "mti": mti, "sti": sti, "kbirq": None if st.chance(3, 4) else st.chance(1, 2),
            "kol0": st.choice((0xFF, 0xFF, 0x00, 0x01)), "koh0": st.choice((0x07, 0x07, 0x00)), "imfill": st.below(256),
            "fast": st.chance(1, 4), "card": None if st.chance(2, 3) else st.chance(1, 2),
            "ttrace": st.choice((None, None, "disasm", "instr", "both")), "steps": steps, "events": events, "splits": cand, "diag": diag, "bounds": bounds,
            "style": f"{style}/{bias}/{irq}/{timers}"}


# --------------------------------------------------------------------------------------------------
# evaluation

CLASSES = (("registers", ("pc", "s", "f", "ba", "i", "x", "y", "u")), ("power", ("pw",)), ("IMR/ISR", ("imr", "isr")),
           ("memory", ("im", "stk", "ustk", "ext")), ("keyboard", ("fifo", "lat", "kb")), ("irq-state", ("pend", "inint")),
           ("timing", ("cyc", "ic", "nm", "ns")))
COMPARED = tuple(f for _c, fs in CLASSES for f in fs)


def _diff(a: Dict[str, Any], b: Dict[str, Any]) -> Tuple[str, str]:
    bad = [f for f in COMPARED if f in a and f in b and a[f] != b[f]]
    if not bad:
        return "", ""
    # one class per verdict: the device layer first (a difference there is the cause of what follows in registers/memory)
    order = ("keyboard", "irq-state", "IMR/ISR", "timing", "power", "memory", "registers")
    present = {c for c, fs in CLASSES if any(f in bad for f in fs)}
    cls = [next(c for c in order if c in present)]

    def show(f: str) -> str:
        if f in ("im", "stk", "ustk"):
            xa, xb = bytes.fromhex(a[f]), bytes.fromhex(b[f])
            offs = [i for i in range(min(len(xa), len(xb))) if xa[i] != xb[i]][:4]
            return f + "[" + ", ".join(f"+{o:02X}: {xa[o]:02X} vs {xb[o]:02X}" for o in offs) + "]"
        return f"{f}: {a[f]!r} vs {b[f]!r}"

    return "+".join(cls), "; ".join(show(f) for f in bad[:5])


def _events_by_step(sc: Dict[str, Any]) -> Dict[int, List[List[Any]]]:
    evs: Dict[int, List[List[Any]]] = {}
    for ev in sc.get("events", []):
        evs.setdefault(int(ev[0]), []).append(ev)
    return evs


def _run_steps(m: PyM, sc: Dict[str, Any], evs: Dict[int, List[List[Any]]], first: int, last: int,
               diag: Optional[Dict[int, List[str]]] = None) -> Tuple[List[Dict[str, Any]], Optional[str]]:
    """Steps first..last-1 with their host events; one observation per step."""
    out: List[Dict[str, Any]] = []
    for k in range(first, last):
        for ev in evs.get(k, []):
            m.event(ev[1], ev[2] if len(ev) > 2 else None)
        if diag is not None:
            for op in diag.get(k, []):
                if not m.diag(op):
                    return out, "void: a host call that must be rejected was accepted: " + op
        try:
            m.emu.step()
        except Exception as exc:  # noqa: BLE001 - compared like any other outcome
            return out, f"step {k}: {type(exc).__name__}: {str(exc)[:120]}"
        out.append(m.observe(full=(k == last - 1)))
    return out, None


def evaluate(sc: Dict[str, Any]) -> Tuple[List[Violation], Optional[str], List[str], Dict[str, Any]]:
    """-> (violations, non-trivial key or None, labels, sample)."""
    self_test()
    steps = int(sc["steps"])
    evs = _events_by_step(sc)
    rom = build_rom(sc)
    vs: List[Violation] = []
    labels: List[str] = ["kind:pymachine-history", "pym-style:" + str(sc.get("style", "?")).split("/")[0]]
    focus = sc.get("focus")
    with contextlib.redirect_stdout(io.StringIO()):
        machines: List[PyM] = []
        try:
            # ---- H: the long-lived machine; fresh continuations are forked off while it runs ----
            H = PyM(sc, rom)
            machines.append(H)
            href: List[Dict[str, Any]] = []
            herr: Optional[str] = None
            conts: Dict[int, Tuple[List[Dict[str, Any]], Optional[str]]] = {}
            splits = sorted({int(n) for n in sc.get("splits", []) if 0 < int(n) < steps})
            for k in range(steps):
                if k in splits and focus in (None, "history"):
                    F = PyM(sc, rom)
                    machines.append(F)
                    transfer(H, F)
                    conts[k] = _run_steps(F, sc, evs, k, min(steps, k + WINDOW))
                    F.close()
                one, herr = _run_steps(H, sc, evs, k, k + 1)
                href += one
                if herr is not None:
                    break
            nrun = len(href)
            # ---- T: identical inputs + diagnostic API calls ----
            if focus in (None, "diagnostics"):
                dg: Dict[int, List[str]] = {}
                for k, op in sc.get("diag", []):
                    dg.setdefault(int(k), []).append(str(op))
                T = PyM(sc, rom, tracing=sc.get("ttrace"))
                machines.append(T)
                tobs, terr = _run_steps(T, sc, evs, 0, steps, dg)
                first_diag = min(dg) if dg else steps
                bad = None
                void = terr is not None and terr.startswith("void:")
                if void:
                    labels.append("pym:rejected-call-was-accepted")
                for k in range(0 if void else max(len(tobs), nrun)):
                    if k >= len(tobs) or k >= nrun:
                        bad = (k, "exception-asymmetry", f"history machine err={herr!r}, twin err={terr!r}")
                        break
                    c, d = _diff(href[k], tobs[k])
                    if c:
                        bad = (k, "differs: " + c, d)
                        break
                if bad is None and herr != terr and not void:
                    bad = (nrun, "exception-asymmetry", f"history machine err={herr!r}, twin err={terr!r}")
                if bad is not None:
                    ops = sorted({op for k, op in sc.get("diag", []) if int(k) <= bad[0]})
                    vs.append(Violation("pymachine-diagnostics", WHERE,
                                        "twin that only differs in tracing configuration, diagnostic API calls and rejected host calls " + bad[1],
                                        dict(sc, focus="diagnostics"),
                                        f"after step {bad[0]} (twin tracing: {sc.get('ttrace')}; first call before step {first_diag}; calls so far: {ops}): "
                                        f"history machine vs twin: {bad[2]}"))
            # ---- F: fresh machines given H's state ----
            for n, (fobs, ferr) in sorted(conts.items()):
                want = href[n:n + WINDOW]
                bad = None
                for j in range(max(len(fobs), len(want))):
                    if j >= len(fobs) or j >= len(want):
                        bad = (j, "exception-asymmetry", f"history machine err={herr!r}, fresh machine err={ferr!r}")
                        break
                    c, d = _diff(want[j], fobs[j])
                    if c:
                        bad = (j, "differs: " + c, d)
                        break
                if bad is not None:
                    vs.append(Violation("pymachine-history", WHERE,
                                        "fresh machine given the same registers, flags, memory and device state " + bad[1],
                                        dict(sc, splits=[n], focus="history"),
                                        f"state transferred before step {n}; {bad[0] + 1} step(s) later: history machine vs fresh machine: {bad[2]}"))
                    break
            # ---- R: run(n) over a partition ----
            if focus in (None, "run-slicing") and herr is None:
                Rm = PyM(sc, rom)
                machines.append(Rm)
                bounds = [0] + sorted({int(b) for b in sc.get("bounds", []) if 0 < int(b) < steps}) + [steps]
                for a, b in zip(bounds, bounds[1:]):
                    for ev in evs.get(a, []):
                        Rm.event(ev[1], ev[2] if len(ev) > 2 else None)
                    rerr = None
                    try:
                        done = Rm.emu.run(b - a)
                    except Exception as exc:  # noqa: BLE001
                        rerr = f"{type(exc).__name__}: {str(exc)[:120]}"
                        done = -1
                    o = Rm.observe(full=(b == steps))
                    c, d = ("exception-asymmetry", f"run({b - a}) raised {rerr}") if rerr else _diff(href[b - 1], o)
                    if not c and done != b - a:
                        c, d = "instruction-count", f"run({b - a}) returned {done}"
                    if c:
                        vs.append(Violation("pymachine-run-slicing", WHERE,
                                            "run(n) over a partition of the steps " + ("differs: " + c if not rerr else c),
                                            dict(sc, focus="run-slicing"),
                                            f"after run() chunks {bounds} up to step {b}: single-stepped vs run(): {d}"))
                        break
        finally:
            for m in machines:
                m.close()
    # ---- labels / non-triviality, measured on the reference run ----
    live = [k for k, o in enumerate(href) if o["fifo"] or o["lat"] or o["isr"] or o["pend"] or o["inint"]]
    reads = [i for i in sc["main"] if i[0] in ("LDIM", "LDABS")]
    per_iter = sum(n_instr(i) for i in sc["main"]) + 1
    if reads and nrun >= 2 * per_iter:
        labels.append("pym:device-register-polled-from-one-pc")
    for i in reads:
        labels.append("pym-poll:" + ({KIL: "KIL", ISR: "ISR", IMR: "IMR", KOL: "KOL", KOH: "KOH", LCC: "LCC"}.get(i[1], "LCD-status")
                                     if i[0] == "LDIM" else "LCD-status"))
    if any(o["fifo"] for o in href):
        labels.append("pym:key-event-queued")
    if any(o["lat"] for o in href):
        labels.append("pym:key-request-latched")
    if href and href[-1]["irqn"] > 0:
        labels.append("pym:interrupt-delivered")
    if any(o["pw"] for o in href):
        labels.append("pym:halted")
    if herr:
        labels.append("python-exception:py-machine")
    labels.append("pym-twin-tracing:" + str(sc.get("ttrace")))
    labels.append("pym-card:" + {None: "default", True: "present", False: "absent"}[sc.get("card")])
    for _k, op in sc.get("diag", []):
        labels.append("pym-call:" + str(op))
    pts = sorted(set(conts) | {int(k) for k, _op in sc.get("diag", [])})
    hot = [p for p in pts if any(p - 1 <= k <= p + per_iter for k in live)]
    if hot:
        labels.append("pym:transfer-or-diagnostic-call-with-live-device-state")
    if any(0 < p and href[p - 1]["fifo"] for p in conts if p - 1 < nrun):
        labels.append("pym:split-with-queued-key-event")
    labels = sorted(set(labels))
    nt = ("pym:" + jhash([sc["main"], sc["handler"], sc["events"], sc["imr0"], sc["mti"], sc["sti"], sc["splits"], sc["diag"]])
          if hot and reads and nrun >= 2 * per_iter else None)
    sample = {"kind": "pymachine-history", "style": sc.get("style"), "main": sc["main"], "handler": sc["handler"],
              "events": sc["events"], "splits": sc["splits"], "diag": sc["diag"], "steps_run": nrun}
    return vs, nt, labels, sample


def run_shard(seed: int, shard: int, n: int, thorough: bool = False) -> Report:
    _mods()
    self_test()
    rep = Report()
    for i in range(n):
        sc = gen_case(Stream(seed, 0xC07D, shard, i), thorough)
        vs, nt, labels, sample = evaluate(sc)
        for v in vs:
            rep.violate(v)
        rep.case(nt, labels, sample if rep.evaluations % 61 == 7 else None)
    return rep


def replay_case(case: Dict[str, Any]) -> List[Violation]:
    _mods()
    return evaluate(case)[0]


def shrink(v: Violation) -> Violation:
    """Same fingerprint, fewer events / diagnostic calls / handler instructions (bounded: <= ~30 replays)."""
    key = v.key()
    case = copy.deepcopy(v.case)
    best = v
    budget = 30

    def same(cand: Dict[str, Any]) -> Optional[Violation]:
        try:
            for w in replay_case(cand):
                if w.key() == key:
                    return w
        except Exception:
            return None
        return None

    for field in ("diag", "events", "handler", "bounds"):
        i = 0
        while i < len(case.get(field, [])) and budget > 0:
            cand = dict(case, **{field: case[field][:i] + case[field][i + 1:]})
            budget -= 1
            w = same(cand)
            if w is not None:
                case, best = copy.deepcopy(w.case), w
            else:
                i += 1
    return best
