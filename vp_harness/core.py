"""Shared data types for the verification harness: Violation, Report, Ctx.

A property module (vp_harness/props/cXX.py) exposes

    PROPERTY = "CXX"
    def run(ctx) -> Report            # explore; never raises for a property violation
    def replay(ctx, case) -> list[Violation]   # run one saved case through the same verdict function

The runner (runner.py) owns exit codes, known-finding matching, replay files and evidence.
"""

from __future__ import annotations

import hashlib
import json
import multiprocessing
import os
import time
from collections import Counter
from dataclasses import dataclass, field
from typing import Any, Callable, Dict, Iterable, List, Optional, Sequence

ROOT = os.environ.get("VERIF_ROOT") or os.path.dirname(os.path.dirname(os.path.abspath(__file__)))
REPO = os.environ.get("VERIF_REPO", "/repo")


def jhash(obj: Any, n: int = 12) -> str:
    return hashlib.sha256(json.dumps(obj, sort_keys=True, default=str).encode()).hexdigest()[:n]


def mix32(seed: int, *vals: int) -> int:
    """Deterministic 32-bit mixer used to derive shard seeds and memory fill."""
    h = (seed ^ 0x9E3779B9) & 0xFFFFFFFF
    for v in vals:
        h ^= v & 0xFFFFFFFF
        h = (h * 0x85EBCA6B) & 0xFFFFFFFF
        h ^= h >> 13
        h = (h * 0xC2B2AE35) & 0xFFFFFFFF
        h ^= h >> 16
    return h


def scramble_seed(seed: int) -> int:
    """Bijective 32-bit finaliser applied once to VERIF_SEED."""
    h = (seed & 0xFFFFFFFF) ^ 0x6A09E667
    h = (h * 0x85EBCA6B) & 0xFFFFFFFF
    h ^= h >> 13
    h = (h * 0xC2B2AE35) & 0xFFFFFFFF
    h ^= h >> 16
    h = (h * 0x27D4EB2F) & 0xFFFFFFFF
    h ^= h >> 15
    return h


@dataclass
class Violation:
    """One violating verdict.

    fingerprint: semantic bucket {subcheck, where, symptom} (strings) -- never raw values.
    case: everything needed to re-run the case without generators (JSON-able).
    detail: human-readable expected/observed.
    """

    subcheck: str
    where: str
    symptom: str
    case: Any
    detail: str = ""

    @property
    def fingerprint(self) -> Dict[str, str]:
        return {"subcheck": self.subcheck, "where": self.where, "symptom": self.symptom}

    def key(self) -> str:
        return json.dumps(self.fingerprint, sort_keys=True)

    def to_json(self) -> Dict[str, Any]:
        return {"fingerprint": self.fingerprint, "case": self.case, "detail": self.detail}


@dataclass
class Report:
    """Accumulated result of an exploration (mergeable across shards)."""

    evaluations: int = 0
    nontrivial: set = field(default_factory=set)  # hashes of distinct non-trivial cases
    labels: Counter = field(default_factory=Counter)
    samples: List[Any] = field(default_factory=list)
    violations: List[Violation] = field(default_factory=list)  # capped per fingerprint
    violation_counts: Counter = field(default_factory=Counter)  # fingerprint key -> count
    filtered: int = 0
    rule: str = ""
    assumptions: List[str] = field(default_factory=list)
    exhaustive: bool = False
    extra: Dict[str, Any] = field(default_factory=dict)
    inconclusive: List[str] = field(default_factory=list)

    MAX_PER_FP = 3
    MAX_SAMPLES = 12

    def case(self, nontrivial_key: Any = None, labels: Iterable[str] = (), sample: Any = None) -> None:
        self.evaluations += 1
        if nontrivial_key is not None:
            self.nontrivial.add(nontrivial_key if isinstance(nontrivial_key, (str, int)) else jhash(nontrivial_key))
        for lb in labels:
            self.labels[lb] += 1
        if sample is not None and len(self.samples) < self.MAX_SAMPLES:
            self.samples.append(sample)

    def _stored(self) -> Counter:
        st = self.__dict__.get("_stored_per_key")
        if st is None or sum(st.values()) != len(self.violations):
            st = Counter(x.key() for x in self.violations)
            self.__dict__["_stored_per_key"] = st
        return st

    def violate(self, v: Violation) -> None:
        k = v.key()
        self.violation_counts[k] += 1
        st = self._stored()
        if st[k] < self.MAX_PER_FP:
            self.violations.append(v)
            st[k] += 1

    def merge(self, other: "Report") -> "Report":
        self.evaluations += other.evaluations
        self.nontrivial |= other.nontrivial
        self.labels.update(other.labels)
        for s in other.samples:
            if len(self.samples) < self.MAX_SAMPLES:
                self.samples.append(s)
        st = self._stored()
        for v in other.violations:
            k = v.key()
            if st[k] < self.MAX_PER_FP:
                self.violations.append(v)
                st[k] += 1
        self.violation_counts.update(other.violation_counts)
        self.filtered += other.filtered
        if other.rule and not self.rule:
            self.rule = other.rule
        for a in other.assumptions:
            if a not in self.assumptions:
                self.assumptions.append(a)
        for a in other.inconclusive:
            if a not in self.inconclusive:
                self.inconclusive.append(a)
        for k, val in other.extra.items():
            if isinstance(val, (int, float)) and isinstance(self.extra.get(k), (int, float)):
                self.extra[k] += val
            elif k not in self.extra:
                self.extra[k] = val
        return self


class HarnessError(Exception):
    """Infrastructure failure (build, harness crash, generator bug): exit 2, never a violation."""


@dataclass
class Ctx:
    prop: str
    tier: str
    seed: int
    procs: int = 16
    t0: float = field(default_factory=time.time)
    budget_s: float = 0.0
    seed_raw: int = 0

    @property
    def quick(self) -> bool:
        return self.tier == "quick"

    def pick(self, quick: Any, thorough: Any) -> Any:
        return quick if self.tier == "quick" else thorough

    def shard_seed(self, i: int) -> int:
        return mix32(self.seed, i, 0x5EED)

    def elapsed(self) -> float:
        return time.time() - self.t0

    def out_of_budget(self) -> bool:
        return self.budget_s > 0 and self.elapsed() > self.budget_s

    def pmap(self, func: Callable[[Any], Any], tasks: Sequence[Any], procs: Optional[int] = None,
             chunksize: int = 1) -> List[Any]:
        """Run func over tasks on a fork pool; results in task order (deterministic merge)."""
        procs = procs or self.procs
        procs = max(1, min(procs, len(tasks)))
        if procs == 1 or os.environ.get("VERIF_NO_POOL"):
            return [func(t) for t in tasks]
        mp = multiprocessing.get_context("fork")
        with mp.Pool(procs) as pool:
            return pool.map(func, tasks, chunksize=chunksize)

    def merge_reports(self, reports: Iterable[Report]) -> Report:
        out = Report()
        for r in reports:
            out.merge(r)
        return out
