"""C16 Python machine driver: PCE500Emulator from ROM image + config, events, step, observe, save/load.

Mirrors rust/harness/src/c16.rs so the property module can treat both models uniformly.  Observation goes
through public accessors and restores the memory access counters it disturbs; `diag()` reads private
attributes but is used only to *name* what a restored machine is missing (never for a verdict).
"""

from __future__ import annotations

import hashlib
from typing import Any, Dict, List, Optional

from . import c16_scen as S

_REGS = ("PC", "BA", "I", "X", "Y", "U", "S", "F")


def _h(b: bytes) -> str:
    return hashlib.blake2b(b, digest_size=8).hexdigest()


class PyMachine:
    def __init__(self, scen: Dict[str, Any]) -> None:
        from pce500.emulator import PCE500Emulator
        from sc62015.pysc62015 import RegisterName

        self.RN = RegisterName
        cfg = scen["cfg"]
        emu = PCE500Emulator(trace_enabled=False, perfetto_trace=False, save_lcd_on_exit=False)
        emu.load_rom(S.rom_image(scen))
        card = cfg.get("card")
        if card:
            size = int(card["size"])
            fill = int(card["fill"])
            emu.load_memory_card(bytes((fill + i) & 0xFF for i in range(size)), size)
        xram = cfg.get("xram")
        if xram:
            emu.expand_ram(int(xram["size"]), int(xram["start"]))
        emu.reset()
        t = cfg.get("timer") or {}
        # Same knobs the maintainers' tests use (pce500/tests/test_interrupts.py).
        emu._timer_enabled = bool(t.get("enabled", False))
        emu._timer_mti_period = int(t.get("mti", 0)) or emu._timer_mti_period
        emu._timer_sti_period = int(t.get("sti", 0)) or emu._timer_sti_period
        emu._timer_next_mti = emu.cycle_count + emu._timer_mti_period
        emu._timer_next_sti = emu.cycle_count + emu._timer_sti_period
        for name, val in (cfg.get("regs") or {}).items():
            emu.cpu.regs.set(getattr(RegisterName, name), int(val))
        self.emu = emu
        self.windows = [tuple(w) for w in cfg.get("windows", [])]
        self.probes = [tuple(w) for w in cfg.get("probes", [])]
        self.sweep = tuple(cfg.get("sweep") or ())

    # ------------------------------------------------------------------ events / stepping
    def apply_events(self, evs: Optional[List[List[Any]]]) -> None:
        for ev in evs or []:
            kind, key = ev[0], ev[1]
            if kind == "press":
                self.emu.press_key(key)
            elif kind == "release":
                self.emu.release_key(key)
            elif kind == "on_press":
                self.emu.press_key("KEY_ON")
            elif kind == "on_release":
                self.emu.release_key("KEY_ON")

    def step(self) -> Optional[str]:
        try:
            self.emu.step()
            return None
        except Exception as exc:  # the same exception must then occur in the restored run
            return f"{type(exc).__name__}: {str(exc)[:80]}"

    # ------------------------------------------------------------------ observation
    def peek(self, start: int, length: int) -> bytes:
        emu = self.emu
        rc, wc = emu.memory_read_count, emu.memory_write_count
        out = bytes(emu.memory.read_byte(start + i) & 0xFF for i in range(length))
        emu.memory_read_count, emu.memory_write_count = rc, wc
        return out

    def bus_probes(self) -> Dict[str, str]:
        """Bus reads (memory.read_byte) around every region boundary plus a strided sample of the whole
        external space, hashed per region.  Verdict-relevant: it is memory as the program would read it.
        LCD windows are skipped (their reads change controller state)."""
        emu = self.emu
        rd = emu.memory.read_byte
        rc, wc = emu.memory_read_count, emu.memory_write_count
        out: Dict[str, str] = {}

        def lcd(a: int) -> bool:
            return any(lo <= a <= hi for lo, hi in S.LCD_WINDOWS)

        for name, start, ln in self.probes:
            out[name] = _h(bytes(rd(a) & 0xFF for a in range(max(0, start), min(0x100000, start + ln))
                                 if not lcd(a)))
        if self.sweep:
            off, stride = int(self.sweep[0]), int(self.sweep[1])
            for name, lo, hi in S.SWEEP_REGIONS:
                first = lo + ((off - lo) % stride)
                out["bus:sweep-" + name] = _h(bytes(rd(a) & 0xFF for a in range(first, hi + 1, stride)
                                                    if not lcd(a)))
        emu.memory_read_count, emu.memory_write_count = rc, wc
        return out

    def observe(self) -> Dict[str, Any]:
        emu = self.emu
        RN = self.RN
        regs = {r: int(emu.cpu.regs.get(getattr(RN, r))) for r in _REGS}
        snap = emu.lcd.get_snapshot()
        chips = [{"on": bool(c.on), "start_line": int(c.start_line), "page": int(c.page),
                  "y_address": int(c.y_address)} for c in snap.chips]
        vram = bytes(int(v) & 0xFF for c in snap.chips for row in c.vram for v in row)
        stats = emu.get_interrupt_stats()
        by = stats.get("by_source", {})
        last = stats.get("last", {})
        return {
            "regs": regs,
            "imem": emu.memory.get_internal_memory_bytes().hex(),
            "win": {name: self.peek(start, ln).hex() for name, start, ln in self.windows},
            "lcd": {"chips": chips, "vram": _h(vram)},
            "kb": {"fifo": list(emu.keyboard.fifo_snapshot()), "pressed": list(emu.keyboard.get_pressed_keys())},
            "power": "halted" if getattr(emu.cpu.state, "halted", False) else "running",
            "cycles": int(emu.cycle_count),
            "instr": int(emu.instruction_count),
            "irq": {"total": stats.get("total"), "KEY": by.get("KEY"), "MTI": by.get("MTI"), "STI": by.get("STI"),
                    "last": [last.get("src"), last.get("pc"), last.get("vector")]},
        }

    def diag(self) -> Dict[str, Any]:
        emu = self.emu

        def g(obj: Any, name: str) -> Any:
            try:
                return getattr(obj, name)
            except Exception:
                return "n/a"

        d: Dict[str, Any] = {}
        d["halted"] = bool(g(emu.cpu.state, "halted"))
        for name in ("_key_irq_latched", "_irq_pending", "_in_interrupt", "_kb_irq_enabled", "_kb_irq_count",
                     "call_depth", "fast_mode", "_next_interrupt_id"):
            d[name.lstrip("_")] = g(emu, name)
        src = g(emu, "_irq_source")
        d["irq_source"] = getattr(src, "name", src)
        d["interrupt_stack"] = list(g(emu, "_interrupt_stack") or [])
        d["timer_enabled"] = g(emu, "_timer_enabled")
        d["mti_period"] = g(emu, "_timer_mti_period")
        d["sti_period"] = g(emu, "_timer_sti_period")
        d["next_mti"] = g(emu, "_timer_next_mti")
        d["next_sti"] = g(emu, "_timer_next_sti")
        d["call_sub_level"] = g(emu.cpu.regs, "call_sub_level")
        try:
            d["temps"] = {str(k): int(v) for k, v in emu.cpu.snapshot_registers().temps.items()}
        except Exception:
            d["temps"] = "n/a"
        try:
            d["card_data"] = _h(bytes(emu.memory._card_data))
        except Exception:
            d["card_data"] = "n/a"
        try:
            d["lcd_busy"] = [bool(c.state.busy) for c in emu.lcd.chips]
        except Exception:
            d["lcd_busy"] = "n/a"
        try:
            ks = emu.keyboard.snapshot_state()
            m = dict(ks.get("matrix", {}))
            m["pressed_keys"] = sorted(m.get("pressed_keys", []))
            m.pop("kil_latch", None)  # derived latch, recomputed by the loader
            ks.pop("last_kil", None)
            m["key_states"] = sorted((k, tuple(sorted(v.items()))) for k, v in m.get("key_states", {}).items()
                                     if any(v.values()))
            ks["matrix"] = m
            d["kb_state"] = _h(repr(sorted(ks.items(), key=lambda kv: kv[0])).encode())
        except Exception:
            d["kb_state"] = "n/a"
        d["last_imem_values"] = dict(g(emu, "_last_imem_values") or {})
        d["kb_metrics"] = [g(emu, "_kb_strobe_count"), list(g(emu, "_kb_col_hist") or []),
                           list(g(emu, "_last_kil_columns") or []), g(emu, "_last_kol"), g(emu, "_last_koh"),
                           g(emu, "_kil_read_count")]
        # (no hash of the raw external_memory array: bytes shadowed by a data-backed overlay legitimately differ
        # after a load -- the loader mirrors the flattened image into the backing array -- and can never be read;
        # what can be read is covered by bus_probes())
        try:
            d["overlay_payloads"] = sorted((o.name, _h(bytes(o.data))) for o in emu.memory.overlays
                                           if o.data is not None and o.start < 0x100000)
        except Exception:
            d["overlay_payloads"] = "n/a"
        d.update(self.bus_probes())
        return d

    # ------------------------------------------------------------------ snapshots
    def save(self, path: str) -> Optional[str]:
        try:
            self.emu.save_snapshot(path)
            return None
        except Exception as exc:
            return f"{type(exc).__name__}: {str(exc)[:120]}"

    def load(self, path: str) -> Optional[str]:
        try:
            self.emu.load_snapshot(path)
            return None
        except Exception as exc:
            return f"{type(exc).__name__}: {str(exc)[:120]}"

    def run(self, events: Dict[str, Any], start: int, stop: int, save_prefix: Optional[str] = None,
            save_upto: int = 0, want_diag: bool = False) -> Dict[str, Any]:
        obs: List[Dict[str, Any]] = []
        diags: List[Dict[str, Any]] = []
        save_errs: List[Any] = []
        j = start
        while True:
            if save_prefix is not None and j <= save_upto:
                e = self.save(f"{save_prefix}{j}.pcsnap")
                if e:
                    save_errs.append([j, e])
                if want_diag:
                    diags.append(self.diag())
            if j >= stop:
                break
            self.apply_events(events.get(str(j)))
            err = self.step()
            o = self.observe()
            if err:
                o["err"] = err
            obs.append(o)
            j += 1
        return {"obs": obs, "diags": diags, "save_errs": save_errs}

    def close(self) -> None:
        try:
            self.emu.close()
        except Exception:
            pass


def run_chain(scen: Dict[str, Any], pts: List[int], root: str, prefix: str, cont: int) -> Dict[str, Any]:
    """Snapshot generations.  G1 = fresh machine that loads the bundle `root` (taken before step pts[0]); for
    g >= 2: G(g-1) runs on to step pts[g-1], saves, and keeps running `cont` steps (the reference); a fresh Gg
    loads that bundle.  One link per g >= 2: saver's observations R (R[0] at the save, R[1+i] after continuation
    step i), its diagnostic probes at the save, and the loaded machine's observation/probes right after the
    load plus its next `cont` steps (it saves the next generation on the way: saving must not disturb it)."""
    ev = scen["events"]
    out: Dict[str, Any] = {"root_load_err": None, "root_obs": None, "links": []}
    cur = PyMachine(scen)
    le = cur.load(root)
    out["root_load_err"] = le
    out["root_obs"] = cur.observe()
    if le is not None:
        cur.close()
        return out
    pending: Optional[Dict[str, Any]] = None  # link whose loaded machine is `cur`
    for g in range(2, len(pts) + 1):
        k0, k1 = pts[g - 2], pts[g - 1]
        r1 = cur.run(ev, k0, k1)
        at_save = cur.observe()
        path = f"{prefix}g{g}.pcsnap"
        se = cur.save(path)
        dg = cur.diag()
        r2 = cur.run(ev, k1, k1 + cont)
        cur.close()
        if pending is not None:
            pending["obs"] = (r1["obs"] + r2["obs"])[:cont]
        link: Dict[str, Any] = {"gen": g, "k": k1, "save_err": se, "load_err": None, "R": [at_save] + r2["obs"],
                                "ref_diag": dg, "obs0": None, "diag": None, "obs": []}
        out["links"].append(link)
        if se is not None:
            return out
        cur = PyMachine(scen)
        link["load_err"] = cur.load(path)
        link["obs0"] = cur.observe()
        link["diag"] = cur.diag()
        if link["load_err"] is not None:
            cur.close()
            return out
        pending = link
    if pending is not None:
        pending["obs"] = cur.run(ev, pts[-1], pts[-1] + cont)["obs"]
    cur.close()
    return out
