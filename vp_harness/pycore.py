"""Adapter: run the Python SC62015 emulator on (registers, hash-filled memory) with logging.

The memory model is identical to the Rust harness bus (rust/harness/src/cpu.rs): content of canonical
address c is overrides.get(c, mix32(seed, c) & 0xFF); canon() reduces an address to the documented
address space (see canon() for the per-core pairing with the project's own memory conventions).
A *case* is a JSON-able dict shared with the Rust side:
    {"regs": {"BA","I","X","Y","U","S","PC","F", optional TEMPn}, "power": "running"|"halted",
     "seed": int, "mem": [[addr, byte], ...], "steps": n}
"""

from __future__ import annotations

from typing import Any, Dict, List, Optional, Tuple

from .core import mix32

ARCH_REGS = ("BA", "I", "X", "Y", "U", "S", "PC", "F")
INT_BASE = 0x100000


def canon(a: int) -> int:
    """Canonical address of a byte access made by the *Python* core.

    Canonical space: 0..0xFFFFF external, 0x100000..0x1000FF internal.  Bits 20-23 of an external pointer
    are don't-care on the 20-bit bus (both project memory models drop them one way or another), so they are
    dropped here as on the Rust harness bus.  One asymmetry is deliberate: the Python lifter forms internal
    addresses as INTERNAL_MEMORY_START + *unwrapped* offset (n+BP+PX, multi-byte and counted forms) and
    relies on PCE500Memory's documented `(address - 0x100000) & 0xFF` to wrap them, so raw addresses in
    [0x100000, 0x101000) are taken as internal modulo 256.  Any access whose raw address is not already
    canonical sets `noncanon` so that verdicts can classify the case as an address-wrap ("@edge") case."""
    a &= 0xFFFFFF
    if 0x100000 <= a < 0x101000:
        return 0x100000 + (a & 0xFF)
    return a & 0xFFFFF


def is_canonical(a: int) -> bool:
    return 0 <= a <= 0xFFFFF or 0x100000 <= a <= 0x1000FF


class HashMemory:
    """binja_test_mocks Memory-compatible object over the hash fill with read/write logs."""

    def __init__(self, seed: int, overrides: Optional[Dict[int, int]] = None, log_reads: bool = False) -> None:
        self.seed = seed & 0xFFFFFFFF
        self.over: Dict[int, int] = dict(overrides or {})
        self.writes: List[Tuple[int, int]] = []
        self.reads: List[int] = []
        self.log_reads = log_reads
        self.waits: List[int] = []
        self.noncanon = False

    def peek(self, a: int) -> int:
        c = canon(a)
        v = self.over.get(c)
        if v is None:
            return mix32(self.seed, c) & 0xFF
        return v

    # --- Memory protocol used by the evaluator / emulator ---
    def read_byte(self, address: int) -> int:
        if not (0 <= address <= 0xFFFFF or 0x100000 <= address <= 0x1000FF):
            self.noncanon = True
        if self.log_reads:
            self.reads.append(canon(address))
        return self.peek(address)

    def write_byte(self, address: int, value: int) -> None:
        assert 0 <= value < 256, "Value must be a byte (0-255)"
        if not (0 <= address <= 0xFFFFF or 0x100000 <= address <= 0x1000FF):
            self.noncanon = True
        c = canon(address)
        self.over[c] = value & 0xFF
        self.writes.append((c, value & 0xFF))

    def read_bytes(self, address: int, size: int) -> int:
        assert 0 < size <= 3
        v = 0
        for i in range(size):
            v |= self.read_byte(address + i) << (i * 8)
        return v

    def write_bytes(self, size: int, address: int, value: int) -> None:
        assert 0 < size <= 3
        for i in range(size):
            self.write_byte(address + i, (value >> (i * 8)) & 0xFF)

    def wait_cycles(self, n: int) -> None:
        self.waits.append(int(n))


def make_emulator(case: Dict[str, Any], log_reads: bool = False):
    from sc62015.pysc62015.emulator import Emulator, RegisterName

    mem = HashMemory(int(case.get("seed", 0)), {canon(a): v & 0xFF for a, v in case.get("mem", [])}, log_reads)
    emu = Emulator(mem, reset_on_init=False)  # type: ignore[arg-type]
    set_regs(emu, case.get("regs", {}))
    emu.state.halted = case.get("power", "running") != "running"
    return emu, mem


def set_regs(emu: Any, regs: Dict[str, int]) -> None:
    from sc62015.pysc62015.emulator import RegisterName

    for n in ("BA", "I", "X", "Y", "U", "S", "PC", "F", "A", "B", "IL", "IH", "FC", "FZ"):
        if n in regs:
            emu.regs.set(RegisterName[n], int(regs[n]))
    for k, v in regs.items():
        if k.startswith("TEMP"):
            emu.regs.set(RegisterName[k], int(v))


def get_regs(emu: Any, temps: bool = False) -> Dict[str, int]:
    from sc62015.pysc62015.emulator import RegisterName

    out = {n: int(emu.regs.get(RegisterName[n])) for n in ARCH_REGS}
    if temps:
        for i in range(14):
            out[f"TEMP{i}"] = int(emu.regs.get(RegisterName[f"TEMP{i}"]))
    return out


def step(emu: Any, mem: HashMemory, want_temps: bool = False, want_reads: bool = False) -> Dict[str, Any]:
    """Execute one instruction at PC. Never raises: Python-side exceptions are reported in 'err'."""
    from sc62015.pysc62015.emulator import RegisterName

    mem.writes = []
    mem.reads = []
    mem.waits = []
    mem.noncanon = False
    pc = emu.regs.get(RegisterName.PC)
    out: Dict[str, Any] = {"pc": pc}
    try:
        info = emu.execute_instruction(pc)
        out["len"] = int(info.instruction_info.length)
        out["name"] = str(info.instruction.name())
    except BaseException as exc:  # noqa: BLE001 - reported, classified by the caller
        out["err"] = f"{type(exc).__name__}: {str(exc)[:120]}"
    out["regs"] = get_regs(emu, want_temps)
    out["power"] = "halted" if emu.state.halted else "running"
    out["writes"] = [[a, v] for a, v in mem.writes]
    if want_reads:
        out["reads"] = list(mem.reads)
    if mem.waits:
        out["waits"] = list(mem.waits)
    if mem.noncanon:
        out["noncanon"] = True
    return out


def run_case(case: Dict[str, Any], want_temps: bool = False, want_reads: bool = False) -> Dict[str, Any]:
    emu, mem = make_emulator(case, log_reads=want_reads)
    steps = []
    for _ in range(int(case.get("steps", 1))):
        if emu.state.halted and case.get("stop_on_halt", True):
            break
        s = step(emu, mem, want_temps, want_reads)
        steps.append(s)
        if "err" in s:
            break
    res: Dict[str, Any] = {"ok": True, "steps": steps}
    if case.get("peek"):
        res["peek"] = [mem.peek(a) for a in case["peek"]]
    return res


def final_writes(steps: List[Dict[str, Any]]) -> Dict[int, int]:
    out: Dict[int, int] = {}
    for s in steps:
        for a, v in s.get("writes", []):
            out[int(a)] = int(v)
    return out
