"""C11 generators: memory configurations and access histories (deterministic streams; no Hypothesis state).

A case is {"cfg": <abstract configuration, see c11_model.Model>, "ops": [op..], "sent_seed": int} with
  op = ["st", addr, bits, value, variant] | ["ld", addr, bits, variant] | ["rej", kind, a, b] (see gen_rej)
variant: py  -> "b" (read_bytes/write_bytes) | "t" (read_byte/word/long, write_byte/word/long)
         rs  -> "d" (MemoryImage::load/store)
         rs-cpu -> "lmn" (MV [lmn],r / MV r,[lmn]) | "imem" (MV (n),r / MV r,(n) under PRE 0x32)
Everything needed to re-run a case is in the case; probes/sentinels are pure functions of it.

Generated configuration dimensions beyond the obvious ones: the ORDER of the card-slot calls and of the overlay
registrations (cfg["seq"]), and -- in 30 % of the configurations -- overlays that OVERLAP each other, the card window
or the Python ROM image (partially, nested, identical range); overlap spans and their edges are address classes.
"""

from __future__ import annotations

from typing import Any, Dict, List, Optional, Tuple

from .core import mix32
from .gen_state import Stream
from . import c11_model as M

INT = M.INT
PROFILES = ("plain", "alias", "edge", "mixed")
OVL_SIZES = (1, 2, 3, 16, 256, 4096)
CARD_SIZES = (8192, 16384, 32768, 65536)
# documented boundaries (DESIGN 4/C11): an access is placed within +-2 of one of these
GLOBAL_EDGES = (0x00000, 0x40000, 0x42000, 0x44000, 0x48000, 0x50000, 0x80000, 0x88000, 0x90000, 0xB8000,
                0xC0000, 0xFFF00, 0x100000, 0x100100, 0x1000000, 0x1100000, 0x1100100, 0x100000000 - 0,
                0x2000, 0x2010, 0x3000, 0xA000, 0xB000)
OVL_ANCHORS = (0x00000, 0x000FE, 0x00100, 0x10000, 0x3FFF0, 0x50000, 0x7FFFE, 0x80000, 0x87FF0, 0x88000,
               0xB7FFE, 0xB8000, 0xBC000, 0xBFFF0, 0xBE000, 0x60000, 0x9FFFF)


def _overlaps(lo: int, hi: int, taken: List[Tuple[int, int]]) -> bool:
    return any(lo <= b and hi >= a for a, b in taken)


INT_OVL_SIZES = (1, 2, 3, 16, 0x40, 0x100)
INT_OVL_ANCHORS = (0x00, 0x10, 0x40, 0x80, 0xE0, 0xEC, 0xEE, 0xF3, 0xF8, 0xFD)
OVERLAP_SIZES = (2, 16, 256, 4096, 0x8000, 0x10000, 0x40000)
# anchors that put an overlay across / inside / exactly on another overlay-type window (card slot, ROM image)
OVERLAP_ANCHORS = (0x3FFF0, 0x40000, 0x40000, 0x41FF0, 0x42000, 0x47FFF, 0x48000, 0x4FFF0, 0x4FFFF, 0x30000,
                   0xBFFF0, 0xC0000, 0xFFF00 - 0x1000)


def gen_card_seq(st: Stream, py: bool) -> List[List[Any]]:
    """Ordered card-slot configuration calls (0..3 of them): the ORDER is a generated dimension."""

    def card() -> List[Any]:
        c = {"size": st.choice(CARD_SIZES + (65536,)), "k": 6 + st.below(2)}
        if py:
            c["writable"] = st.chance(3, 4)
        return ["card", c]

    r = st.below(16)
    if r < 3:
        return []
    if r < 6:
        return [card()]
    if r < 8:
        return [["slot", False]]
    if r == 8:
        return [["slot", True]]
    if r < 11:
        return [card(), ["slot", False]]            # card taken out again
    if r < 14:
        return [["slot", False], card()]            # card inserted into a slot that was declared empty
    if r == 14:
        return [card(), ["slot", st.chance(1, 2)], card()] if st.chance(1, 2) else [card(), card()]
    return [["slot", False], ["slot", True]] if st.chance(1, 2) else [card(), ["slot", False], ["slot", True]]


PORT_SIZES = (1, 1, 1, 2, 2, 3)
SYSIMG_LENS = (0x100000, 0x100000, 0x100000, 0x40000, 0x80000, 0x100000 + 0x100, 0xFFFFF, 0x40001)


def gen_cfg(st: Stream, kind: str, st2: Optional[Stream] = None) -> Dict[str, Any]:
    """st2: stream of the round-5 dimensions (port-sized overlays, ROM-image entry points); drawn from a stream of
    its own so that the older dimensions keep their values for a given (seed, shard, index)."""
    cfg: Dict[str, Any] = {"model": kind}
    py = kind.startswith("py")
    cpu = kind == "rs-cpu"
    cfg["fill"] = st.choice((None, 1, 2))
    # windows an extra overlay / read-only range must never touch (devices, code, undocumented interplay) ...
    hard: List[Tuple[int, int]] = []
    # ... and overlay-type windows it may only touch when the configuration is an "overlapping overlays" one
    soft: List[Tuple[int, int]] = [(M.CARD_LO, M.CARD_HI)]
    if kind in ("py-emu",):
        hard += [(0x2000, 0x2FFF), (0xA000, 0xAFFF)]
    if cpu:
        hard += [(0x2000, 0x2FFF), (0xA000, 0xAFFF), (M.CODE_LO, M.CODE_HI)]
    overlap = st.chance(3, 10)
    if py:
        if st.chance(4, 5):
            cfg["rom"] = {"k": 3 + st.below(3), "api": "load_rom"}
            soft.append((M.ROM_LO, M.ROM_HI))
        else:
            hard.append((0xFFF00, 0xFFFFF))
    else:
        cfg["mirror"] = st.chance(3, 4) if cpu else st.chance(1, 2)
        r = st.below(4)
        if r == 1:
            cfg["rom"] = {"k": 3 + st.below(3), "api": "slice"}
        elif r == 2:
            cfg["rom"] = {"k": 3 + st.below(3), "api": "window"}
        elif r == 3:
            cfg["rom"] = {"k": 3 + st.below(3), "api": "slice"}
            cfg["map"] = True
        if st2 is not None and st2.chance(1, 4):
            # ROM image through the other public entry point: pce500::load_pce500_system_image (CoreRuntime) /
            # load_pce500_system_image_into_memory + configure_pce500_memory_map (bare MemoryImage), with images of
            # generated length: >= 1 MiB = the whole external space comes from the image, shorter = top window only
            cfg["rom"] = {"k": 3 + st2.below(3), "api": "sysimg", "len": st2.choice(SYSIMG_LENS)}
            cfg.pop("map", None)
            r = r or 2
        if r:
            hard.append((M.ROM_LO, M.ROM_HI))
    seq = gen_card_seq(st, py)
    if not py:
        nro = st.choice((0, 0, 0, 1, 2))
        ros = []
        for _ in range(nro):
            size = st.choice((1, 2, 3, 0x100, 0x1000))
            start = (st.choice(OVL_ANCHORS) + st.below(4)) if st.chance(1, 2) else st.below(0xC0000 - size)
            lo, hi = start, start + size - 1
            if _overlaps(lo, hi, hard + soft):
                continue
            if cfg["mirror"] and M.MIRROR_LO <= hi and lo < M.MIRROR_BASE:
                continue  # a read-only range over non-canonical mirror aliases has no documented meaning
            ros.append([lo, hi])
            hard.append((lo, hi))
        if ros:
            cfg["ro"] = ros
    novl = st.choice((0, 0, 1, 1, 2)) if not overlap else st.choice((1, 2, 2, 3))
    ovl: List[Dict[str, Any]] = []
    for _ in range(novl):
        if overlap and st.chance(3, 4):
            # overlapping overlays: across the edge of / inside / exactly equal to / around another overlay
            size = st.choice(OVERLAP_SIZES)
            if ovl and st.chance(1, 2):
                o = st.choice(ovl)
                base = st.choice((o["start"], o["start"] + o["size"] - 1, o["start"] + o["size"] // 2,
                                  o["start"] - size // 2))
                if st.chance(1, 4):
                    size = o["size"]
                    base = o["start"]
            else:
                base = st.choice(OVERLAP_ANCHORS)
                if st.chance(1, 3):
                    base -= st.below(min(size, 0x100))
            start = max(0, base)
        else:
            size = st.choice(OVL_SIZES)
            start = (st.choice(OVL_ANCHORS) + st.below(4)) if st.chance(2, 3) else st.below(0xC0000 - size)
        lo, hi = start, start + size - 1
        if hi > M.EXT_MASK or _overlaps(lo, hi, hard):
            continue
        if not overlap and _overlaps(lo, hi, soft):
            continue
        if not py and cfg.get("mirror") and M.MIRROR_LO <= hi and lo <= M.MIRROR_HI:
            # overlays inside the mirror window: the documentation does not say whether overlay lookup
            # happens before or after mirroring -> not generated (listed as an assumption)
            continue
        ovl.append({"kind": st.choice(("ram", "rom")), "start": lo, "size": size, "k": 8 + st.below(3)})
        if not overlap:
            soft.append((lo, hi))
    # port-sized overlays (1-3 bytes: an I/O-port / ID-register window in the middle of plain memory, narrower than
    # a 16/24-bit access), 1 configuration in 3; gen_ops places accesses at every alignment around them
    if st2 is not None and st2.chance(1, 3):
        for _ in range(st2.choice((1, 1, 2, 3))):
            size = st2.choice(PORT_SIZES)
            if ovl and st2.chance(1, 4):
                o = st2.choice(ovl)           # next to / one byte away from an existing overlay
                start = st2.choice((o["start"] + o["size"] + st2.below(2), o["start"] - size - st2.below(2)))
            elif st2.chance(1, 2):
                start = st2.choice(OVL_ANCHORS) + st2.below(6)
            else:
                start = 4 + st2.below(0xC0000 - 8)
            lo, hi = start, start + size - 1
            if lo < 0 or hi >= INT or _overlaps(lo, hi, hard):
                continue
            if not overlap and _overlaps(lo, hi, soft):
                continue
            if not py and cfg.get("mirror") and M.MIRROR_LO <= hi and lo <= M.MIRROR_HI:
                continue
            ovl.append({"kind": st2.choice(("ram", "rom")), "start": lo, "size": size, "k": 8 + st2.below(3)})
            if not overlap:
                soft.append((lo, hi))
    # overlays registered INSIDE the 256-byte internal window (1 configuration in 5): whether the internal memory
    # consults the overlay table is undocumented (model: "int-ovlp" cells), but every internal byte they do not
    # cover -- the key-port bytes 0xF0-0xF2 included -- must stay plain internal RAM.  Python: only next to a ROM
    # image (without one the last 256 external bytes alias the internal memory: known finding, kept apart).
    if st.chance(1, 5) and (not py or cfg.get("rom") is not None):
        for _ in range(st.choice((1, 1, 2))):
            r = st.below(24)
            if r == 0 and kind == "py":
                size = st.choice((1, 2))                       # inside the key-port block, not covering all of it
                start = INT + 0xF0 + st.below(4 - size)
            elif r <= 2:
                size, start = 3, INT + 0xF0                    # exactly the key-port block
            elif r <= 12:
                size = st.choice(INT_OVL_SIZES)
                start = INT + st.choice(INT_OVL_ANCHORS)
            else:
                size = st.choice(INT_OVL_SIZES)
                start = INT + st.below(0x100 - size + 1)
            lo, hi = start, start + size - 1
            if hi > INT + 0xFF:
                continue
            if kind in ("py-emu", "rs-cpu") and hi >= INT + 0xF0:
                continue  # device registers once the peripherals are attached (never value-checked)
            ovl.append({"kind": st.choice(("ram", "rom")), "start": lo, "size": size, "k": 8 + st.below(3)})
    if ovl:
        cfg["ovl"] = ovl
    # registration order of the overlays relative to the card-slot calls (and to each other) is generated too
    for i in range(len(ovl)):
        seq.insert(st.below(len(seq) + 1), ["ovl", i])
    # an overlay taken out again (remove_overlay by name) -- anywhere in the sequence; before its registration it
    # is the removal of an unknown name
    if ovl and st.chance(1, 4):
        for _ in range(st.choice((1, 1, 2))):
            # half of them at the very end: nothing re-establishes the table before the first access
            seq.insert(len(seq) if st.chance(1, 2) else st.below(len(seq) + 1), ["rm", st.below(len(ovl))])
    # rejected / empty configuration calls anywhere in the sequence (they must leave no trace)
    for _ in range(st.choice((0, 0, 1, 1, 2))):
        seq.insert(st.below(len(seq) + 1), gen_rej(st, kind, ovl))
    cfg["seq"] = seq
    return cfg


BAD_CARD_SIZES = (1, 16, 1000, 4096, 8191, 8193, 12288, 16383, 24576, 32769, 49152, 65535, 65537, 131072)
REJ_KINDS_RS = ("card-empty", "card-badsize", "card-badsize", "ram-ovl-empty", "rom-ovl-empty", "remove-unknown",
                "copy-ext-badlen", "slice-out-of-range")
REJ_KINDS_PY = ("card-badsize", "card-badsize", "card-badsize", "ram-ovl-empty", "rom-ovl-empty", "remove-unknown")


def gen_rej(st: Stream, kind: str, ovl: List[Dict[str, Any]]) -> List[Any]:
    """A configuration call that the implementation refuses (Err / exception) or that names no location:
         ["rej", kind, a, b]
       card-empty        Rust load_memory_card(&[])                                            -> Err
       card-badsize      load_memory_card with an unsupported size a (Python: card_size=a, b = data length and
                         bit 0 of b = writable)                                               -> Err / ValueError
       ram-ovl-empty     add_ram_overlay(a, 0, "z") / add_ram(a, 0, "z")       zero bytes: covers no location
       rom-ovl-empty     add_rom_overlay(a, &[], "z") / add_rom(a, b"", "z")   zero bytes: covers no location
       remove-unknown    remove_overlay("no-such-overlay")
       copy-ext-badlen   Rust copy_external_from(a bytes != 1 MiB)                             -> Err
       slice-out-of-range Rust write_external_slice / CoreRuntime::load_rom(start a >= 1 MiB, b bytes): outside
                         the backing store
    """
    py = kind.startswith("py")
    k = st.choice(REJ_KINDS_PY if py else REJ_KINDS_RS)
    a = b = 0
    if k == "card-badsize":
        a = st.choice(BAD_CARD_SIZES + ((0,) if py else ()))
        b = st.choice((0, 16, 8192, 65536)) + st.below(2) if py else 0
    elif k in ("ram-ovl-empty", "rom-ovl-empty"):
        starts = [0, M.CARD_LO, M.CARD_LO + st.below(0x10000), M.ROM_LO, M.MIRROR_BASE, st.below(0x100000)]
        starts += [o["start"] for o in ovl if o["start"] < INT]
        if not py:
            starts += [INT, INT + 0xF0, INT + st.below(0x100)]
        a = st.choice(starts)
    elif k == "copy-ext-badlen":
        a = st.choice((0, 1, 0x100, 0xFFFFF, 0x100001, 0x100100))
    elif k == "slice-out-of-range":
        a = st.choice((0x100000, 0x100040, 0x1000F0, 0x140000, 0x1000000))
        b = st.choice((1, 16, 0x100))
    return ["rej", k, a, b]


def _edges(m: M.Model) -> List[int]:
    pts = list(GLOBAL_EDGES)
    for lo, hi, name, cls, _ in m.regions:
        pts.append(lo)
        pts.append(hi + 1)
    for stp in M.steps(m.cfg):
        if stp[0] == "card":
            pts.append(M.CARD_LO + stp[1]["size"])
    for lo, hi in m.ovlp_spans:
        pts += [lo, hi + 1]
    if m.cpu or m.emu:
        # the device register block inside internal memory (KOL/KOH/KIL at 0xF0-0xF2, E-port/SIO above):
        # wide accesses that start below it and reach into it, or start inside and run out of it
        pts += [INT + 0xF0, INT + 0xF3]
    return pts


def _areas(m: M.Model) -> List[Tuple[int, int]]:
    areas = [(lo, hi) for lo, hi, name, cls, _ in m.regions if cls != "dev"]
    areas += list(m.ovlp_spans) * 2
    areas += [(0x00000, 0x3FFFF), (0x50000, 0x7FFFF), (0x80000, 0xB7FFF), (0xB8000, 0xBFFFF), (0xC0000, 0xFFFFF),
              (M.CARD_LO, M.CARD_HI)]
    return areas


def narrow_regions(m: M.Model) -> List[Tuple[int, int]]:
    """Regions of the configured map (overlays, read-only ranges, overlap spans, card remainders) that are narrower
    than the widest access (1-3 bytes) and lie in external space: an access can start before and end after them."""
    out = []
    for lo, hi, name, cls, _ in m.regions:
        if hi - lo + 1 <= 3 and hi < INT and cls != "dev":
            out.append((lo, hi))
    for lo, hi in m.ovlp_spans:
        if hi - lo + 1 <= 3 and hi < INT:
            out.append((lo, hi))
    return sorted(set(out))


def gen_ops(st: Stream, m: M.Model, profile: str, nops: int, st2: Optional[Stream] = None
            ) -> Tuple[List[List[Any]], List[str]]:
    """Generate a history; returns (ops, labels)."""
    allow_alias = profile in ("alias", "mixed")
    allow_edge = profile in ("edge", "mixed")
    allow_wild = profile == "mixed"
    edges = _edges(m)
    areas = _areas(m)
    hot: List[int] = []
    ops: List[List[Any]] = []
    labels: List[str] = []
    cpu = m.cpu

    def draw_addr() -> Tuple[int, str]:
        r = st.below(100)
        if hot and r < 35:
            c = st.choice(hot[-6:])
            d = st.choice((0, 0, 0, -1, -2, 1))
            if c >= INT:
                a = INT + ((c - INT + d) & 0xFF)
            else:
                a = (c + d) & M.EXT_MASK
            lab = "hot"
        elif r < 52:
            off = st.choice((0, 1, 2, 0x7F, 0x80, 0xEB, 0xEC, 0xEE, 0xEF, 0xF0, 0xF2, 0xF3, 0xFA, 0xFD, 0xFE, 0xFF)) \
                if st.chance(1, 3) else st.below(0x100)
            a = INT + off
            lab = "internal"
        elif r < 75 or not (allow_edge or allow_wild):
            lo, hi = st.choice(areas)
            a = lo + st.below(hi - lo + 1)
            lab = "interior"
        elif r < 92 and allow_edge or not allow_wild:
            a = st.choice(edges) - 3 + st.below(5)
            lab = "edge"
        else:
            a = st.choice((st.u32(), st.u32() & 0xFFFFFF, 0xFFFFFFFF - st.below(3), 0x1000000 - 1 - st.below(3),
                           0x1000000 + st.below(3), INT + 0x100 + st.below(0x300)))
            lab = "wild"
        a &= 0xFFFFFFFF
        if allow_alias and st.chance(2, 5):
            c = m.canon(a)
            al = M.aliases(m, c)
            if profile == "alias":
                al = [x for x in al if x[1] in M.STATED_ALIASES]
            if st.chance(1, 2) or not al:
                a = (a & 0xFFFFFF) + st.below(256) * 0x1000000
            else:
                a = st.choice(al)[0]
            lab += "+alias"
        return a & 0xFFFFFFFF, lab

    narrow = narrow_regions(m) if st2 is not None else []
    tries = 0
    ovl = m.cfg.get("ovl") or []
    while len(ops) < nops and tries < nops * 8:
        tries += 1
        if st.chance(1, 25):
            # a rejected / empty configuration call between two accesses: must leave no trace
            rj = gen_rej(st, m.kind, ovl)
            ops.append(rj)
            labels.append("rej:" + rj[1])
            continue
        bits = st.choice((8, 8, 16, 24))
        n = bits // 8
        store = st.chance(11, 20)
        addr, lab = draw_addr()
        if narrow and (allow_edge or allow_wild) and st2.chance(1, 6):
            # around a region narrower than the access: every alignment from "last byte touches its first byte" to
            # "first byte touches its last byte"; half of them ENCLOSING it (first and last byte outside) when the
            # access is wide enough
            lo, hi = st2.choice(narrow)
            w = hi - lo + 1
            if n >= w + 2 and st2.chance(1, 2):
                a = lo - 1 - st2.below(n - w - 1)
            else:
                a = lo - (n - 1) + st2.below(n + w - 1)
            if a >= 0:
                addr = a
                lab = "narrow"
                if allow_alias and st2.chance(1, 4):
                    addr = a + st2.below(256) * 0x1000000
                    lab += "+alias"
        variant = "d"
        if m.py:
            variant = st.choice(("b", "t"))
        if cpu:
            addr &= 0xFFFFFF
            inwin = INT <= addr < INT + 0x100
            variant = "imem" if (inwin and st.chance(2, 3)) else "lmn"
            cells = m.cells(addr, n)
            # interrupt/system registers 0xFB-0xFF and the code bytes are not touched from CPU programs
            if any((c >= INT + 0xFB) or (M.CODE_LO - 2 <= c <= M.CODE_HI) for c in cells):
                continue
            if variant == "imem" and addr + n > INT + 0x100:
                continue
        regions, flags = M.describe(m, addr, n)
        if not allow_edge and not allow_wild and ("split" in flags or "|" in regions):
            continue
        if not allow_alias and not allow_wild and any(f in flags for f in ("a24", "hi-mapped", "hi-plain", "mir")):
            continue
        if profile == "alias" and any(f in flags for f in ("hi-mapped", "hi-plain")):
            continue  # the alias profile uses only the aliases the statement names (2^24 wrap, mirror window)
        devs = [m.info(c)[1] == "dev" for c in m.cells(addr, n)]
        if all(devs) and not st.chance(1, 3):
            continue  # pure device accesses: kept only as "must not disturb plain memory" stimuli
        if store:
            value = st.u32() & ((1 << bits) - 1)
            if st.chance(1, 8):
                # landmark values: all-zero / all-one bytes, a single zero or 0xFF byte among others, sign bits
                value = st.choice((0, (1 << bits) - 1, 1 << (bits - 1), value & ~0xFF, value | 0xFF,
                                   value & 0xFF, 0xFF << (bits - 8), 1, 0x010203 & ((1 << bits) - 1)))
            if cpu and bits == 24:
                value &= 0xFFFFF
            ops.append(["st", addr, bits, value, variant])
            for c in m.cells(addr, n):
                hot.append(c)
        else:
            ops.append(["ld", addr, bits, variant])
        labels.append(f"addr:{lab}")
    return ops, labels


def gen_case(seed: int, shard: int, index: int, kind: str, nops: int) -> Tuple[Dict[str, Any], List[str]]:
    # core.mix32 XORs its first two inputs before mixing, so (seed, shard) and (seed^d, shard^d) would collide;
    # scramble the seed on its own first
    st = Stream(mix32(mix32(seed, 0xC11C11), shard), index, 0xC11)
    st2 = Stream(mix32(mix32(seed, 0xC11C15), shard), index, 0xC115)
    cfg = gen_cfg(st, kind, st2)
    m = M.Model(cfg)
    profile = st.choice(PROFILES)
    ops, labels = gen_ops(st, m, profile, nops, st2)
    case = {"cfg": cfg, "ops": ops, "sent_seed": st.u32() & 0xFFFF, "profile": profile}
    return case, labels
