"""C18 helper: reference discrete-event scheduler and the verdict function for one scheduler case.

A *case* is
    {"clock0": int | absent,          # absent -> AsyncDriver::new(), else AsyncDriver::with_clock
     "tasks": [{"at": k,              # spawned just before run_for call number k (0 = before the first)
                "se": ev | None,      # event emitted on the first poll (before the first sleep)
                "ops": [[d, ev|None], ...]}],   # d >= 0: sleep_cycles(d); d == -1: bare Poll::Pending
                                      # [d, ev|None, rep]: the op rep times in a row (compact notation for long
                                      # chains), the event belongs to the last repetition; expand_tasks() unfolds it
                                      # [d, ev|None, 1, mk]: WHERE the sleep future of the op is constructed --
                                      #   mk = k >= 1: `let nap = sleep_cycles(d);` stands k resumptions before the
                                      #   one that does `nap.await` (clipped to the task's first poll); "spawn": the
                                      #   host constructs it right before driver.spawn and moves it into the task;
                                      #   "new": the host constructs it right after constructing the driver.
                                      #   Absent/None/0: the ordinary `sleep_cycles(d).await`.
                "gh": [[r, d], ...]}],# `let _ = sleep_cycles(d);` in resumption r (-1 = first poll, i = the one that
                                      # follows op i): a sleep future constructed and dropped, never awaited
     "budgets": [b0, b1, ...],        # explicit run_for budgets
     "tail_budget": B, "tail_max": N} # afterwards run_for(B) until all tasks finished and MaxCycles (<= N calls)

An *observation* (from rust/harness/src/c18.rs) is
    {"log": [[task, step(-1 = first poll), current_cycle(), call index], ...]   in poll order,
     "results": [[event|None, cycles_executed, driver.clock() afterwards], ...] one per run_for call,
     "budgets": budgets actually used (explicit + tail), "spawn_clock": driver.clock() at spawn, "done": n}

Event ids need not be unique (payload cases let several tasks emit an EQUAL DriverEvent::User id, also within one
cycle): "every emitted event exactly once / in emission order" is the comparison of the returned sequence with the
emission sequence, value by value (a multiset per value, in order).

Budgets (and `tail_budget`) range over the whole u64 domain; the reference scheduler computes clock + budget in
unbounded integers, which equals the driver's saturating sum as long as every wake-up cycle of the case stays below
2^64 - 1 (generators keep clock0 + all sleeps far below that).
"""

from __future__ import annotations

from collections import deque
from typing import Any, Dict, List, Optional, Tuple

from .core import HarnessError, Violation

YIELD = -1
LONG_STEPS = 64  # a wake-up that goes wrong this deep into a script gets its own fingerprint


# ------------------------------------------------------------------------------------------------
# block_on interludes (another user of the thread's scheduler channel; never a subject)
# ------------------------------------------------------------------------------------------------
# An interlude is a plain list of durations (future sleeps them in turn) or a script {"se": ev|None,
# "ops": [[d, ev|None], ...]} interpreted like a task script (emit on the first poll, then sleep/emit).  The
# future completes in the poll that follows its last sleep; `ops[-1][1]` (or `se` when there are no ops) is
# therefore "an event emitted in the completing poll", everything else is emitted in a poll that is followed by
# another await.

BO_NONE = " [another scheduler was driven on the same thread between the run_for calls]"
BO_NONFINAL = (" [block_on of a future that emitted events, none of them in its completing poll, ran on the same "
               "thread in between]")
BO_FINAL = " [block_on of a future that emitted an event in its completing poll ran on the same thread in between]"


def interlude_emits(entry: Any) -> Tuple[bool, bool]:
    """(emits in a poll that is followed by another await, emits in the completing poll)"""
    if not isinstance(entry, dict):
        return False, False
    ops = entry.get("ops") or []
    se = entry.get("se")
    if not ops:
        return False, se is not None
    nonfinal = se is not None or any(o[1] is not None for o in ops[:-1])
    return nonfinal, ops[-1][1] is not None


def interlude_flavour(entries: List[Any]) -> Optional[str]:
    """None: no interlude emits anything; 'final': some interlude emits in its completing poll; 'nonfinal':
    interludes emit, but only in polls followed by another await."""
    flav = None
    for e in entries:
        nf, f = interlude_emits(e)
        if f:
            return "final"
        if nf:
            flav = "nonfinal"
    return flav


def interlude_suffix(entries: List[Any], none: str = BO_NONE) -> str:
    return {None: none, "nonfinal": BO_NONFINAL, "final": BO_FINAL}[interlude_flavour(entries)]


def strip_final_emit(entry: Dict[str, Any]) -> Dict[str, Any]:
    """The same interlude script without an emission in its completing poll."""
    e = dict(entry)
    ops = [list(o) for o in (e.get("ops") or [])]
    if ops:
        ops[-1][1] = None
    else:
        e.pop("se", None)
    e["ops"] = ops
    return e


MK_EARLIER = ", sleep future constructed in an earlier resumption than the one that awaits it"
MK_HOST = ", sleep future constructed by the host before the task was spawned"


def op_mk(o: List[Any]) -> Any:
    """construction place of the op's sleep future: None (ordinary), k >= 1, "spawn" or "new" """
    if len(o) > 3 and o[3] and o[0] >= 0:
        return o[3]
    return None


def mk_suffix(o: List[Any]) -> str:
    m = op_mk(o)
    if m is None:
        return ""
    return MK_HOST if isinstance(m, str) else MK_EARLIER


def has_construction(case: Dict[str, Any]) -> bool:
    return any(t.get("gh") or any(op_mk(o) is not None for o in t["ops"]) for t in case["tasks"])


def strip_construction(case: Dict[str, Any]) -> Dict[str, Any]:
    """The same case with every sleep future constructed where it is awaited and no dropped sleep futures."""
    c = dict(case)
    c["tasks"] = []
    for t in case["tasks"]:
        nt = {k: v for k, v in t.items() if k != "gh"}
        nt["ops"] = [list(o[:3]) if len(o) > 3 else list(o) for o in t["ops"]]
        c["tasks"].append(nt)
    return c


def expand_tasks(tasks: List[Dict[str, Any]]) -> List[Dict[str, Any]]:
    """Unfold the compact [d, ev, rep] notation into plain [d, ev] ops (same expansion as the Rust adapter); an op
    with a construction place keeps it as [d, ev, 1, mk]."""
    if not any(len(o) > 2 for t in tasks for o in t["ops"]):
        return tasks
    out = []
    for t in tasks:
        ops: List[List[Any]] = []
        for o in t["ops"]:
            rep = o[2] if len(o) > 2 else 1
            if rep >= 1:
                ops.extend([[o[0], None]] * (rep - 1))
                ops.append([o[0], o[1]] + ([1, o[3]] if op_mk(o) is not None else []))
        nt = dict(t)
        nt["ops"] = ops
        out.append(nt)
    return out


def expanded(case: Dict[str, Any]) -> Dict[str, Any]:
    tasks = expand_tasks(case["tasks"])
    if tasks is case["tasks"]:
        return case
    c = dict(case)
    c["tasks"] = tasks
    return c


# ------------------------------------------------------------------------------------------------
# reference discrete-event scheduler
# ------------------------------------------------------------------------------------------------

def model(case: Dict[str, Any], budgets: List[int]) -> Dict[str, Any]:
    """Reference scheduler.  Grounding of each rule (maintainers' unit tests in async_driver.rs/async_cpu.rs/
    async_devices.rs): a task is first polled at the driver clock at spawn time; a wake-up is served at exactly
    current+d (sleep_resumes_on_target_cycles), a bare Pending at current+1
    (pending_without_sleep_advances_by_one); run_for(b) from clock c serves wake-ups in [c, c+b)
    (async_cpu_respects_cycle_budget_and_emits_trace), the clock only moves to served wake-up cycles
    (driver_starts_at_configured_clock; idle budget is not consumed), an emitted event ends the run at its
    cycle and is returned (emit_event_interrupts_run), further queued events are returned by later calls.
    Same-cycle order: FIFO by wake-up request (properties.jsonl C18 anchors: 'polls its tasks in insertion
    order')."""
    tasks = case["tasks"]
    clock = int(case.get("clock0") or 0)
    queue: Dict[int, List[int]] = {}
    events: deque = deque()
    pc = [-1] * len(tasks)  # -1: not started; k: next op index to complete
    log: List[List[int]] = []
    results: List[List[Any]] = []
    for k, b in enumerate(budgets):
        for i, t in enumerate(tasks):
            if t.get("at", 0) == k:
                queue.setdefault(clock, []).append(i)
        if events:
            results.append([events.popleft(), 0, clock])
            continue
        start = clock
        target = start + b
        ret = None
        while queue:
            nxt = min(queue)
            if nxt >= target:
                break
            clock = nxt
            batch = queue.pop(nxt)
            for i in batch:
                t = tasks[i]
                ops = t["ops"]
                if pc[i] < 0:
                    log.append([i, -1, clock, k])
                    ev = t.get("se")
                    pc[i] = 0
                else:
                    log.append([i, pc[i], clock, k])
                    ev = ops[pc[i]][1]
                    pc[i] += 1
                if pc[i] < len(ops):
                    d = ops[pc[i]][0]
                    wake = clock + 1 if d < 0 else clock + d
                    queue.setdefault(wake, []).append(i)
                if ev is not None:
                    events.append(ev)
            if events:
                ret = events.popleft()
                break
        results.append([ret, clock - start, clock])
    return {"log": log, "results": results}


# ------------------------------------------------------------------------------------------------
# verdicts
# ------------------------------------------------------------------------------------------------

def op_kind(d: int) -> str:
    if d < 0:
        return "bare Pending"
    if d == 0:
        return "sleep_cycles(0)"
    return "sleep_cycles(d>0)"


def _sanity(case: Dict[str, Any], obs: Dict[str, Any]) -> None:
    if not obs.get("ok"):
        return
    ntasks = len(case["tasks"])
    nxt = [-1] * ntasks
    last_call = 0
    for t, s, c, k in obs["log"]:
        if not (0 <= t < ntasks) or s != nxt[t]:
            raise HarnessError(f"c18 harness log out of script order: {obs['log']} for {case}")
        nxt[t] += 1
        if k < last_call:
            raise HarnessError("c18 harness call index decreased")
        last_call = k
    if len(obs["results"]) != len(obs["budgets"]):
        raise HarnessError("c18 harness results/budgets length mismatch")


def check(case: Dict[str, Any], obs: Dict[str, Any], ref: Optional[Dict[str, Any]] = None,
          again: Optional[Dict[str, Any]] = None, plain: Optional[Dict[str, Any]] = None
          ) -> Tuple[List[Violation], List[str], bool]:
    """Verdicts for one observed scheduler run.

    ref   : observation of the same task set under the reference partition (tail budget only), or None
    again : a second observation of the very same case (determinism), or None
    plain : observation of strip_construction(case) under the same budgets (every sleep future constructed where
            it is awaited), or None
    returns (violations, labels, nontrivial)"""
    out: List[Violation] = []
    labels: List[str] = []

    def V(sub: str, where: str, symptom: str, detail: str) -> None:
        out.append(Violation(sub, where, symptom, case, detail))

    if not obs.get("ok"):
        V("crash", "AsyncDriver", "panic or error inside the driver",
          str(obs.get("panic") or obs.get("error"))[:300])
        return out, ["crash"], False
    _sanity(case, obs)

    xcase = expanded(case)  # plain [d, ev] ops; violations keep the compact case
    tasks = xcase["tasks"]
    ntasks = len(tasks)
    log = obs["log"]
    results = obs["results"]
    budgets = obs["budgets"]
    ncalls = len(results)
    clock0 = int(case.get("clock0") or 0)
    complete = obs["done"] == ntasks and all(t.get("at", 0) < ncalls for t in tasks) and \
        ncalls > 0 and results[-1][0] is None
    starts = [clock0] + [r[2] for r in results[:-1]]  # driver clock at the start of call k
    late = any(t.get("at", 0) > 0 for t in tasks)

    # ---- per task: exact wake-up cycles --------------------------------------------------------
    by_task: List[List[List[int]]] = [[] for _ in range(ntasks)]
    for e in log:
        by_task[e[0]].append(e)
    plain_by_task: Optional[List[List[List[int]]]] = None
    if plain is not None and plain.get("ok"):
        plain_by_task = [[] for _ in range(ntasks)]
        for e in plain["log"]:
            if 0 <= e[0] < ntasks:
                plain_by_task[e[0]].append(e)
    for i, ents in enumerate(by_task):
        t = tasks[i]
        if ents:
            sc = obs["spawn_clock"][i]
            if sc is not None and ents[0][2] != sc:
                V("first-poll", "AsyncDriver::spawn",
                  "first poll earlier than the driver clock at spawn" if ents[0][2] < sc
                  else "first poll later than the driver clock at spawn",
                  f"task {i} spawned at clock {sc}, first polled at {ents[0][2]}")
        for j in range(1, len(ents)):
            d = t["ops"][j - 1][0]
            want = ents[j - 1][2] + (1 if d < 0 else d)
            got = ents[j][2]
            if got != want:
                # the construction place is part of the fingerprint only if it matters: the same script with
                # ordinary `sleep_cycles(d).await` (when it was observed) is not resumed at this wrong cycle too
                sfx = mk_suffix(t["ops"][j - 1])
                if sfx and plain_by_task is not None and j < len(plain_by_task[i]) and plain_by_task[i][j][2] == got:
                    sfx = ""
                V("wake-exact", op_kind(d) + sfx +
                  (f", {LONG_STEPS} or more steps into a script" if j > LONG_STEPS else ""),
                  "resumed earlier than requested" if got < want
                  else "resumed later than requested",
                  f"task {i} step {j - 1}: previous resumption at {ents[j - 1][2]}, asked d={d} -> {want}, "
                  f"resumed at {got}; log={log[:24]}")
                break

    # ---- virtual time never moves backwards ---------------------------------------------------
    for a, b in zip(log, log[1:]):
        if b[2] < a[2]:
            V("time-monotonic", "current_cycle() across resumptions", "virtual time moved backwards",
              f"{a} then {b}")
            break
    prev = clock0
    for k, r in enumerate(results):
        if r[2] < prev:
            V("time-monotonic", "AsyncDriver::clock() across run_for calls", "virtual time moved backwards",
              f"call {k}: clock {prev} -> {r[2]}")
            break
        prev = r[2]

    # ---- budget window / clock accounting (maintainers' unit tests) ------------------------------
    per_call: List[List[List[int]]] = [[] for _ in range(ncalls)]
    for e in log:
        if e[3] < ncalls:
            per_call[e[3]].append(e)
    for k in range(ncalls):
        c, b = starts[k], budgets[k]
        ev, cyc, clk = results[k]
        ents = per_call[k]
        bad = None
        for e in ents:
            if e[2] >= c + b:
                bad = ("resumed a task at or beyond start+budget", e)
                break
            if e[2] < c:
                bad = ("resumed a task before the driver clock", e)
                break
        if bad:
            V("budget-window", "run_for", bad[0], f"call {k}: clock {c}, budget {b}, resumption {bad[1]}")
        if cyc != clk - c:
            V("budget-window", "DriverRunResult.cycles_executed", "cycles_executed differs from the clock advance",
              f"call {k}: clock {c} -> {clk}, cycles_executed={cyc}")
        elif cyc > b:
            V("budget-window", "DriverRunResult.cycles_executed", "cycles_executed exceeds the budget",
              f"call {k}: budget {b}, cycles_executed={cyc}")
        want_clk = max([c] + [e[2] for e in ents])
        if clk != want_clk and not bad:
            V("budget-window", "AsyncDriver::clock()",
              "clock advanced past the last resumption (idle budget consumed)" if clk > want_clk
              else "clock behind the last resumption",
              f"call {k}: start {c}, budget {b}, last resumption at {want_clk}, clock() == {clk}")

    # ---- no due wake-up is left behind by a call that reports MaxCycles -----------------------------
    def pending_check(i: int, from_call: int, to_call: int, wake: int, what: str) -> bool:
        for k in range(from_call, min(to_call, ncalls)):
            if results[k][0] is None and wake < starts[k] + budgets[k]:
                V("window-complete", what, "run_for returned MaxCycles although a wake-up inside its window was due",
                  f"task {i}: wake-up due at {wake}; call {k} started at {starts[k]} with budget {budgets[k]} "
                  f"and returned MaxCycles without serving it")
                return True
        return False

    timing_ok = not out  # a wrong wake-up cycle already explains everything below; keep one fingerprint per cause
    for i, ents in enumerate(by_task):
        t = tasks[i]
        at = t.get("at", 0)
        if at >= ncalls or not timing_ok:
            continue
        sc = obs["spawn_clock"][i]
        if not ents:
            if sc is not None:
                pending_check(i, at, ncalls, sc, "first poll")
            continue
        if sc is not None and pending_check(i, at, ents[0][3], sc, "first poll"):
            continue
        for j in range(len(ents)):
            if j >= len(t["ops"]):
                break
            d = t["ops"][j][0]
            wake = ents[j][2] + (1 if d < 0 else d)
            nxt_call = ents[j + 1][3] if j + 1 < len(ents) else ncalls
            if pending_check(i, ents[j][3], nxt_call, wake, op_kind(d)):
                break

    # ---- events: each exactly once, in emission order -----------------------------------------------
    emitted: List[Tuple[int, int, int]] = []  # (event, call, cycle) in emission (= poll) order
    for t_i, s, c, k in log:
        ev = tasks[t_i].get("se") if s < 0 else tasks[t_i]["ops"][s][1]
        if ev is not None:
            emitted.append((ev, k, c))
    returned: List[Tuple[int, int]] = [(r[0], k) for k, r in enumerate(results) if r[0] is not None]
    em_vals = [e[0] for e in emitted]
    rt_vals = [e[0] for e in returned]
    em_set = set(em_vals)
    # Event values need not be unique (several tasks may emit an equal DriverEvent, even within one cycle): the
    # statement speaks of *emitted events*, i.e. emissions -- "every emitted event exactly once and in emission
    # order" is the equality of the returned sequence with the emission sequence (a multiset per value, in order).
    em_count: Dict[int, int] = {}
    for v in em_vals:
        em_count[v] = em_count.get(v, 0) + 1

    def ev_where(pos: int) -> str:
        """where-string for a loss / disorder first seen at emission number `pos`: names equal events when a value
        that is concerned (emission `pos`, or a value returned less often than emitted by a finished run) was
        emitted twice within one cycle"""
        if not _emitters_share_cycle(emitted):
            return "run_for result"
        vals = set()
        if 0 <= pos < len(emitted):
            vals.add(emitted[pos][0])
        if complete:
            left = dict(em_count)
            for v in rt_vals:
                left[v] = left.get(v, 0) - 1
            vals.update(v for v, n in left.items() if n > 0)
        seen_vc = set()
        for v, _, c in emitted:
            if v in vals and (v, c) in seen_vc:
                return "two emitters of equal events in one cycle"
            seen_vc.add((v, c))
        return "two emitters in one cycle"

    def is_subsequence(short: List[int], full: List[int]) -> bool:
        it = iter(full)
        return all(any(x == y for y in it) for x in short)

    ev_bad = False
    for v in rt_vals:
        if v not in em_set:
            V("events", "run_for result", "returned an event nobody emitted", f"returned {rt_vals}, emitted {em_vals}")
            ev_bad = True
            break
    if not ev_bad:
        rt_count: Dict[int, int] = {}
        for v in rt_vals:
            rt_count[v] = rt_count.get(v, 0) + 1
            if rt_count[v] > em_count[v]:
                V("events", "run_for result", "an event was returned more than once" if em_count[v] == 1
                  else "an event was returned more often than it was emitted",
                  f"returned {rt_vals}, emitted {em_vals}")
                ev_bad = True
                break
    if not ev_bad and rt_vals != em_vals[:len(rt_vals)]:
        pos = next(i for i in range(len(rt_vals)) if rt_vals[i] != em_vals[i])
        # (with unique ids a permutation of the prefix is never a subsequence, so the first test only matters for
        # equal values: [a, a, b] returned as [a, b] is a loss, not a disorder)
        if not is_subsequence(rt_vals, em_vals) and sorted(rt_vals) == sorted(em_vals[:len(rt_vals)]):
            V("events", ev_where(pos), "events returned out of emission order",
              f"returned {rt_vals}, emitted {em_vals}")
        else:
            V("events", ev_where(pos), "an emitted event was skipped (lost)", f"returned {rt_vals}, emitted {em_vals}")
        ev_bad = True
    if not ev_bad and complete and len(rt_vals) < len(em_vals):
        V("events", ev_where(len(rt_vals)), "an emitted event was never returned (lost)",
          f"returned {rt_vals}, emitted {em_vals}")
        ev_bad = True
    if not ev_bad:
        # causality + 'an event interrupts the run' (emit_event_interrupts_run); the sequences agree, so the
        # n-th returned event IS the n-th emission
        n_ret_before = 0
        for k in range(ncalls):
            ev = results[k][0]
            ents = per_call[k]
            emitted_upto = sum(1 for e in emitted if e[1] <= k)
            if ev is None:
                if emitted_upto > n_ret_before:
                    V("events", "run_for result", "MaxCycles returned while an emitted event is undelivered",
                      f"call {k}: emitted so far {em_vals[:emitted_upto]}, returned so far {rt_vals[:n_ret_before]}")
                    break
                continue
            _, ecall, ecyc = emitted[n_ret_before]
            if ecall > k:
                V("events", "run_for result", "event returned before it was emitted", f"call {k} returned {ev}")
                break
            if ents:
                if ecall != k:
                    V("events", "run_for result", "tasks were resumed although an undelivered event was queued",
                      f"call {k} returned {ev} emitted in call {ecall} after resuming {ents}")
                    break
                if results[k][2] != ecyc:
                    V("events", "run_for result", "run did not stop at the cycle of the first emission",
                      f"call {k}: event {ev} emitted at {ecyc}, clock afterwards {results[k][2]}")
                    break
            n_ret_before += 1

    # ---- same-cycle order does not depend on the split into budgets -----------------------------------
    seq = [(e[0], e[1], e[2]) for e in log]
    if ref is not None and ref.get("ok") and not late:
        rseq = [(e[0], e[1], e[2]) for e in ref["log"]]
        ref_complete = ref["done"] == ntasks
        n = min(len(seq), len(rseq))
        differs = seq[:n] != rseq[:n] or (complete and ref_complete and len(seq) != len(rseq))
        if differs:
            same = sorted(seq[:n]) == sorted(rseq[:n])
            V("split-independence", "same-cycle order" if same else "resumption log",
              "resumption order depends on the budget partition" if same
              else "resumption log depends on the budget partition",
              f"budgets {budgets[:8]}: {seq[:24]} vs single-budget run: {rseq[:24]}")
    # ---- a sleep future is inert until it is awaited: where its constructor call stands does not matter --------
    if plain is not None and plain.get("ok"):
        if plain.get("log") != obs.get("log") or plain.get("results") != obs.get("results"):
            V("construction-independence", "sleep futures constructed away from the resumption that awaits them",
              "resumption log or run_for results differ from the same script with every sleep constructed where it is awaited",
              f"observed {seq[:24]} {results[:8]}; with ordinary `sleep_cycles(d).await` everywhere "
              f"{[(e[0], e[1], e[2]) for e in plain.get('log', [])[:24]]} {plain.get('results', [])[:8]}")
    if again is not None:
        if again.get("log") != obs.get("log") or again.get("results") != obs.get("results"):
            V("determinism", "same case run twice", "two runs of the same case differ",
              f"first {log[:16]} {results[:8]}; second {again.get('log', [])[:16]} {again.get('results', [])[:8]}")

    # ---- reference scheduler -----------------------------------------------------------------------------
    # (catch-all: only consulted when none of the individually grounded checks above fired)
    m = model(xcase, budgets)
    mseq = [(e[0], e[1], e[2]) for e in m["log"]]
    if out:
        pass
    elif mseq != seq:
        if sorted(mseq) == sorted(seq):
            V("fifo-order", "same-cycle order", "tasks due at one cycle are not resumed in wake-up request order",
              f"observed {seq[:24]}; reference {mseq[:24]}")
        else:
            V("reference-model", "resumption log", "resumption log differs from the reference scheduler",
              f"observed {seq[:24]}; reference {mseq[:24]}")
    elif m["results"] != [list(r) for r in results]:
        k = next((i for i in range(min(len(results), len(m["results"]))) if list(results[i]) != m["results"][i]),
                 min(len(results), len(m["results"])))
        fields = []
        if k < len(results) and k < len(m["results"]):
            for name, a, b in zip(("event", "cycles_executed", "clock"), results[k], m["results"][k]):
                if a != b:
                    fields.append(name)
        V("reference-model", "DriverRunResult", "run_for result differs from the reference scheduler: " +
          ",".join(fields or ["length"]),
          f"call {k}: observed {results[k] if k < len(results) else None}, reference "
          f"{m['results'][k] if k < len(m['results']) else None}; budgets {budgets[:10]}")
    if not complete:
        labels.append("incomplete")

    # ---- labels / non-triviality -------------------------------------------------------------------------
    nt = False
    cyc_tasks: Dict[int, set] = {}
    for e in log:
        cyc_tasks.setdefault(e[2], set()).add(e[0])
    if any(len(s) >= 2 for s in cyc_tasks.values()):
        labels.append("same-cycle:>=2-tasks")
        nt = True
    for ents in by_task:
        if len({e[3] for e in ents}) >= 2:
            labels.append("task-spans-budgets")
            nt = True
            break
    for ev, k, c in emitted:
        if k < ncalls and c == starts[k] + budgets[k] - 1:
            labels.append("event-at-last-cycle-of-budget")
            nt = True
            break
    if _emitters_share_cycle(emitted):
        labels.append("events:>=2-in-one-cycle")
    if emitted:
        labels.append("events:some")
    if len(em_set) < len(em_vals):
        seen_vc = set()
        dup_cycle = False
        for v, _, c in emitted:
            if (v, c) in seen_vc:
                dup_cycle = True
                break
            seen_vc.add((v, c))
        # equal DriverEvent values emitted by different resumptions: within one cycle / only in different cycles
        labels.append("events:equal-values-in-one-cycle" if dup_cycle else "events:equal-values-in-different-cycles")
        nt = nt or dup_cycle
    U64 = 2 ** 64 - 1
    for k in range(ncalls):
        if starts[k] > 0 and starts[k] + budgets[k] > U64:
            # the relative budget reaches beyond the end of virtual time ("unlimited"): clock + budget >= 2^64
            labels.append("budget:clock+budget>=2^64")
            if per_call[k]:
                labels.append("budget:clock+budget>=2^64,tasks-resumed")
                nt = True
            break
    if any(b == U64 for b in budgets):
        labels.append("budget:u64::MAX")
    kinds = {op_kind(o[0]) for t in tasks for o in t["ops"]}
    for kd in sorted(kinds):
        labels.append("op:" + kd)
    labels.append(f"tasks:{ntasks}")
    if late:
        labels.append("late-spawn")
    if 0 in budgets[:len(case.get("budgets", []))]:
        labels.append("budget:0")
    if clock0:
        labels.append("clock0:nonzero")
    # construction place of sleep futures: how stale is the construction cycle when the future is first polled?
    mkl = set()
    for i, ents in enumerate(by_task if has_construction(case) else []):
        ops = tasks[i]["ops"]
        if tasks[i].get("gh"):
            mkl.add("mk:constructed-and-dropped")
        for j, o in enumerate(ops):
            m = op_mk(o)
            if m is None:
                continue
            if isinstance(m, str):
                mkl.add("mk:host-" + m)
                continue
            if j >= len(ents):
                mkl.add("mk:earlier,never-awaited")
                continue
            made = ents[max(j - m, 0)][2]  # ents[r + 1] is resumption r; r = max(j - 1 - m, -1)
            polled = ents[j][2]
            if made == polled:
                mkl.add("mk:earlier,same-cycle")
            elif made + o[0] < polled:
                mkl.add("mk:earlier,d-counted-from-construction-would-be-in-the-past")
            elif made + o[0] == polled:
                mkl.add("mk:earlier,d-counted-from-construction-would-be-now")
            else:
                mkl.add("mk:earlier,d-counted-from-construction-would-be-early")
    labels.extend(sorted(mkl))
    if any(len(o) > 2 and o[2] != 1 for t in case["tasks"] for o in t["ops"]):
        longest = max(len(t["ops"]) for t in tasks)
        labels.append("long-script:>=1000-steps" if longest >= 1000 else "long-script:<1000-steps")
        if _longest_same_cycle_run(by_task) > 1000:
            labels.append("same-cycle-rounds:>1000")
    if any(r[0] is not None and not per_call[k] for k, r in enumerate(results)):
        labels.append("event-from-queue")
    if any(r[0] is None and r[1] == 0 and budgets[k] > 0 and k < len(case.get("budgets", []))
           for k, r in enumerate(results)):
        labels.append("idle-call")
    return out, labels, nt


def _longest_same_cycle_run(by_task: List[List[List[int]]]) -> int:
    best = 0
    for ents in by_task:
        run, prev = 0, None
        for e in ents:
            run = run + 1 if e[2] == prev else 1
            prev = e[2]
            if run > best:
                best = run
    return best


def _emitters_share_cycle(emitted: List[Tuple[int, int, int]]) -> bool:
    seen = set()
    for _, _, c in emitted:
        if c in seen:
            return True
        seen.add(c)
    return False
