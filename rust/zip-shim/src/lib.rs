//! Minimal subset of the `zip` 0.6 API used by sc62015-core's snapshot.rs.
//! Writes standard ZIP files (stored or deflate, no zip64, no data descriptors)
//! readable by Python's `zipfile`, and reads ZIPs written by Python's `zipfile`
//! (stored/deflate, via the central directory).
use std::io::{self, Read, Seek, SeekFrom, Write};

pub mod result {
    use std::fmt;
    use std::io;

    #[derive(Debug)]
    pub enum ZipError {
        Io(io::Error),
        InvalidArchive(&'static str),
        UnsupportedArchive(&'static str),
        FileNotFound,
    }

    impl fmt::Display for ZipError {
        fn fmt(&self, f: &mut fmt::Formatter<'_>) -> fmt::Result {
            match self {
                ZipError::Io(e) => write!(f, "{e}"),
                ZipError::InvalidArchive(m) => write!(f, "invalid Zip archive: {m}"),
                ZipError::UnsupportedArchive(m) => write!(f, "unsupported Zip archive: {m}"),
                ZipError::FileNotFound => write!(f, "specified file not found in archive"),
            }
        }
    }

    impl std::error::Error for ZipError {}

    impl From<io::Error> for ZipError {
        fn from(e: io::Error) -> Self {
            ZipError::Io(e)
        }
    }

    pub type ZipResult<T> = Result<T, ZipError>;
}

use result::{ZipError, ZipResult};

#[derive(Clone, Copy, Debug, PartialEq, Eq)]
pub enum CompressionMethod {
    Stored,
    Deflated,
}

pub mod write {
    use super::*;

    #[derive(Clone, Copy, Debug)]
    pub struct FileOptions {
        pub(crate) method: CompressionMethod,
    }

    impl Default for FileOptions {
        fn default() -> Self {
            FileOptions {
                method: CompressionMethod::Deflated,
            }
        }
    }

    impl FileOptions {
        pub fn compression_method(mut self, method: CompressionMethod) -> Self {
            self.method = method;
            self
        }
    }

    struct Entry {
        name: String,
        method: CompressionMethod,
        crc: u32,
        csize: u32,
        usize_: u32,
        offset: u32,
    }

    pub struct ZipWriter<W: Write + Seek> {
        inner: W,
        entries: Vec<Entry>,
        current: Option<(String, CompressionMethod, Vec<u8>)>,
        finished: bool,
    }

    impl<W: Write + Seek> ZipWriter<W> {
        pub fn new(inner: W) -> Self {
            ZipWriter {
                inner,
                entries: Vec::new(),
                current: None,
                finished: false,
            }
        }

        fn flush_current(&mut self) -> ZipResult<()> {
            if let Some((name, method, data)) = self.current.take() {
                let crc = crc32fast::hash(&data);
                let payload: Vec<u8> = match method {
                    CompressionMethod::Stored => data.clone(),
                    CompressionMethod::Deflated => {
                        let mut enc = flate2::write::DeflateEncoder::new(
                            Vec::new(),
                            flate2::Compression::default(),
                        );
                        enc.write_all(&data)?;
                        enc.finish()?
                    }
                };
                let offset = self.inner.stream_position()? as u32;
                let m: u16 = match method {
                    CompressionMethod::Stored => 0,
                    CompressionMethod::Deflated => 8,
                };
                let mut hdr = Vec::with_capacity(30 + name.len());
                hdr.extend_from_slice(&0x04034b50u32.to_le_bytes());
                hdr.extend_from_slice(&20u16.to_le_bytes()); // version needed
                hdr.extend_from_slice(&0u16.to_le_bytes()); // flags
                hdr.extend_from_slice(&m.to_le_bytes());
                hdr.extend_from_slice(&0u16.to_le_bytes()); // time
                hdr.extend_from_slice(&0x21u16.to_le_bytes()); // date 1980-01-01
                hdr.extend_from_slice(&crc.to_le_bytes());
                hdr.extend_from_slice(&(payload.len() as u32).to_le_bytes());
                hdr.extend_from_slice(&(data.len() as u32).to_le_bytes());
                hdr.extend_from_slice(&(name.len() as u16).to_le_bytes());
                hdr.extend_from_slice(&0u16.to_le_bytes()); // extra len
                hdr.extend_from_slice(name.as_bytes());
                self.inner.write_all(&hdr)?;
                self.inner.write_all(&payload)?;
                self.entries.push(Entry {
                    name,
                    method,
                    crc,
                    csize: payload.len() as u32,
                    usize_: data.len() as u32,
                    offset,
                });
            }
            Ok(())
        }

        pub fn start_file<S: Into<String>>(
            &mut self,
            name: S,
            options: FileOptions,
        ) -> ZipResult<()> {
            self.flush_current()?;
            self.current = Some((name.into(), options.method, Vec::new()));
            Ok(())
        }

        pub fn finish(&mut self) -> ZipResult<()> {
            if self.finished {
                return Ok(());
            }
            self.flush_current()?;
            let cd_start = self.inner.stream_position()? as u32;
            let mut cd = Vec::new();
            for e in &self.entries {
                let m: u16 = match e.method {
                    CompressionMethod::Stored => 0,
                    CompressionMethod::Deflated => 8,
                };
                cd.extend_from_slice(&0x02014b50u32.to_le_bytes());
                cd.extend_from_slice(&20u16.to_le_bytes()); // version made by
                cd.extend_from_slice(&20u16.to_le_bytes()); // version needed
                cd.extend_from_slice(&0u16.to_le_bytes()); // flags
                cd.extend_from_slice(&m.to_le_bytes());
                cd.extend_from_slice(&0u16.to_le_bytes());
                cd.extend_from_slice(&0x21u16.to_le_bytes());
                cd.extend_from_slice(&e.crc.to_le_bytes());
                cd.extend_from_slice(&e.csize.to_le_bytes());
                cd.extend_from_slice(&e.usize_.to_le_bytes());
                cd.extend_from_slice(&(e.name.len() as u16).to_le_bytes());
                cd.extend_from_slice(&0u16.to_le_bytes()); // extra
                cd.extend_from_slice(&0u16.to_le_bytes()); // comment
                cd.extend_from_slice(&0u16.to_le_bytes()); // disk
                cd.extend_from_slice(&0u16.to_le_bytes()); // int attr
                cd.extend_from_slice(&0u32.to_le_bytes()); // ext attr
                cd.extend_from_slice(&e.offset.to_le_bytes());
                cd.extend_from_slice(e.name.as_bytes());
            }
            self.inner.write_all(&cd)?;
            let n = self.entries.len() as u16;
            let mut eocd = Vec::new();
            eocd.extend_from_slice(&0x06054b50u32.to_le_bytes());
            eocd.extend_from_slice(&0u16.to_le_bytes());
            eocd.extend_from_slice(&0u16.to_le_bytes());
            eocd.extend_from_slice(&n.to_le_bytes());
            eocd.extend_from_slice(&n.to_le_bytes());
            eocd.extend_from_slice(&(cd.len() as u32).to_le_bytes());
            eocd.extend_from_slice(&cd_start.to_le_bytes());
            eocd.extend_from_slice(&0u16.to_le_bytes());
            self.inner.write_all(&eocd)?;
            self.inner.flush()?;
            self.finished = true;
            Ok(())
        }
    }

    impl<W: Write + Seek> Write for ZipWriter<W> {
        fn write(&mut self, buf: &[u8]) -> io::Result<usize> {
            match self.current.as_mut() {
                Some((_, _, data)) => {
                    data.extend_from_slice(buf);
                    Ok(buf.len())
                }
                None => Err(io::Error::new(
                    io::ErrorKind::Other,
                    "No file has been started",
                )),
            }
        }
        fn flush(&mut self) -> io::Result<()> {
            Ok(())
        }
    }

    impl<W: Write + Seek> Drop for ZipWriter<W> {
        fn drop(&mut self) {
            let _ = self.finish();
        }
    }
}

pub mod read {
    use super::*;

    struct CdEntry {
        name: String,
        method: u16,
        crc: u32,
        csize: u64,
        usize_: u64,
        offset: u64,
    }

    pub struct ZipArchive<R: Read + Seek> {
        inner: R,
        entries: Vec<CdEntry>,
    }

    pub struct ZipFile {
        data: io::Cursor<Vec<u8>>,
        name: String,
    }

    impl ZipFile {
        pub fn name(&self) -> &str {
            &self.name
        }
        pub fn size(&self) -> u64 {
            self.data.get_ref().len() as u64
        }
    }

    impl Read for ZipFile {
        fn read(&mut self, buf: &mut [u8]) -> io::Result<usize> {
            self.data.read(buf)
        }
    }

    fn u16le(b: &[u8], o: usize) -> u16 {
        u16::from_le_bytes([b[o], b[o + 1]])
    }
    fn u32le(b: &[u8], o: usize) -> u32 {
        u32::from_le_bytes([b[o], b[o + 1], b[o + 2], b[o + 3]])
    }

    impl<R: Read + Seek> ZipArchive<R> {
        pub fn new(mut inner: R) -> ZipResult<Self> {
            let len = inner.seek(SeekFrom::End(0))?;
            let tail_len = len.min(66_000);
            inner.seek(SeekFrom::Start(len - tail_len))?;
            let mut tail = vec![0u8; tail_len as usize];
            inner.read_exact(&mut tail)?;
            if tail.len() < 22 {
                return Err(ZipError::InvalidArchive("too short"));
            }
            let mut pos = None;
            let mut i = tail.len() - 22;
            loop {
                if u32le(&tail, i) == 0x06054b50 {
                    pos = Some(i);
                    break;
                }
                if i == 0 {
                    break;
                }
                i -= 1;
            }
            let pos = pos.ok_or(ZipError::InvalidArchive("no end of central directory"))?;
            let n = u16le(&tail, pos + 10) as usize;
            let cd_size = u32le(&tail, pos + 12) as u64;
            let cd_off = u32le(&tail, pos + 16) as u64;
            if cd_off == 0xFFFF_FFFF || n == 0xFFFF {
                return Err(ZipError::UnsupportedArchive("zip64"));
            }
            inner.seek(SeekFrom::Start(cd_off))?;
            let mut cd = vec![0u8; cd_size as usize];
            inner.read_exact(&mut cd)?;
            let mut entries = Vec::with_capacity(n);
            let mut o = 0usize;
            for _ in 0..n {
                if o + 46 > cd.len() || u32le(&cd, o) != 0x02014b50 {
                    return Err(ZipError::InvalidArchive("bad central directory entry"));
                }
                let method = u16le(&cd, o + 10);
                let crc = u32le(&cd, o + 16);
                let csize = u32le(&cd, o + 20) as u64;
                let usize_ = u32le(&cd, o + 24) as u64;
                let nlen = u16le(&cd, o + 28) as usize;
                let elen = u16le(&cd, o + 30) as usize;
                let clen = u16le(&cd, o + 32) as usize;
                let offset = u32le(&cd, o + 42) as u64;
                let name = String::from_utf8_lossy(&cd[o + 46..o + 46 + nlen]).to_string();
                entries.push(CdEntry {
                    name,
                    method,
                    crc,
                    csize,
                    usize_,
                    offset,
                });
                o += 46 + nlen + elen + clen;
            }
            Ok(ZipArchive { inner, entries })
        }

        pub fn len(&self) -> usize {
            self.entries.len()
        }

        pub fn is_empty(&self) -> bool {
            self.entries.is_empty()
        }

        pub fn file_names(&self) -> impl Iterator<Item = &str> {
            self.entries.iter().map(|e| e.name.as_str())
        }

        pub fn by_name(&mut self, name: &str) -> ZipResult<ZipFile> {
            let idx = self
                .entries
                .iter()
                .position(|e| e.name == name)
                .ok_or(ZipError::FileNotFound)?;
            let (method, crc, csize, usize_, offset) = {
                let e = &self.entries[idx];
                (e.method, e.crc, e.csize, e.usize_, e.offset)
            };
            self.inner.seek(SeekFrom::Start(offset))?;
            let mut lh = [0u8; 30];
            self.inner.read_exact(&mut lh)?;
            if u32le(&lh, 0) != 0x04034b50 {
                return Err(ZipError::InvalidArchive("bad local header"));
            }
            let nlen = u16le(&lh, 26) as u64;
            let elen = u16le(&lh, 28) as u64;
            self.inner.seek(SeekFrom::Start(offset + 30 + nlen + elen))?;
            let mut raw = vec![0u8; csize as usize];
            self.inner.read_exact(&mut raw)?;
            let data = match method {
                0 => raw,
                8 => {
                    let mut out = Vec::with_capacity(usize_ as usize);
                    flate2::read::DeflateDecoder::new(&raw[..]).read_to_end(&mut out)?;
                    out
                }
                _ => return Err(ZipError::UnsupportedArchive("compression method")),
            };
            if data.len() as u64 != usize_ || crc32fast::hash(&data) != crc {
                return Err(ZipError::InvalidArchive("crc/size mismatch"));
            }
            Ok(ZipFile {
                data: io::Cursor::new(data),
                name: name.to_string(),
            })
        }
    }
}

pub use read::ZipArchive;
pub use write::ZipWriter;
