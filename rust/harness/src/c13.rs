//! c13 -- drive `sc62015_core::timer::TimerContext` over a generated history.
//!
//! Thin adapter, no timer semantics of its own.  A case is
//!   {"mti": p, "sti": q, "enabled": bool, "isr0": byte, "ops": [[verb, arg?], ...]}
//! and every op maps to exactly one public call of the crate:
//!   ["t", c]   TimerContext::tick_timers(&mut MemoryImage, c, None)
//!   ["b", n]   n ticks at last_cycle+1 ..= last_cycle+n   (WAIT-like burst; one observation per tick)
//!   ["r", b]   TimerContext::reset(b)
//!   ["s", k]   snapshot_info() -> (k=1: serde_json round trip of TimerInfo/InterruptInfo) ->
//!              apply_snapshot_info() on a *fresh* TimerContext built with unrelated defaults
//!   ["w", v]   MemoryImage::write_internal_byte(0xFC, v)   (firmware acknowledging/clearing ISR bits)
//!   ["g", c]   no call at all: the cycle counter moves on to absolute cycle c while the timers are *not* ticked
//!              (what CoreRuntime::step does while `in_interrupt`); only `last` changes, which is what a later
//!              ["s"] hands to apply_snapshot_info as the restored cycle counter
//!   ["R"]      TimerContext::reset(0): power-on style reset, the clock restarts at cycle 0
//!   ["k", n]   host keyboard activity (only acted upon when the case says "kbd": true, see below):
//!              n > 0: n key events are waiting in the host's keyboard, the next scan reports them;
//!              n = 0: the host sets the public `key_irq_latched` flag (as CoreRuntime does for a latched KEYI)
//! With "kbd": true every tick goes through `TimerContext::tick_timers_with_keyboard` -- the wrapper that
//! CoreRuntime::step / the HALT idle path / the device task really call -- with a scan closure that reports the
//! events queued by ["k", n] (the closure is the host's keyboard; it is only invoked when MTI fires);
//! "kbirq": false calls `set_keyboard_irq_enabled(false)` first.
//! "machine" verb: the same timer inside `CoreRuntime::step` (NOP / WAIT / HALT programs), see run_machine().
//! Observation per tick: [fired_mti | fired_sti<<1, next_mti, next_sti, ISR byte after the tick];
//! per reset/snapshot: [next_mti, next_sti]; per write: [ISR].
use crate::util::{err, get_bool, get_u64};
use sc62015_core::keyboard::KeyboardMatrix;
use sc62015_core::memory::MemoryImage;
use sc62015_core::timer::TimerContext;
use sc62015_core::{CoreRuntime, InterruptInfo, TimerInfo};
use serde_json::{json, Value};

#[derive(Default)]
pub struct State {}

const ISR: u32 = 0xFC;

fn tick(ctx: &mut TimerContext, mem: &mut MemoryImage, c: u64, kbd: Option<&mut usize>) -> Value {
    let (m, s) = match kbd {
        None => ctx.tick_timers(mem, c, None),
        Some(waiting) => {
            let (m, s, _events, _stats) = ctx.tick_timers_with_keyboard(
                mem,
                c,
                |_mem| {
                    let n = *waiting;
                    *waiting = 0;
                    (n, n > 0, None)
                },
                None,
                None,
            );
            (m, s)
        }
    };
    let isr = mem.read_internal_byte(ISR).unwrap_or(0);
    json!([(m as u8) | ((s as u8) << 1), ctx.next_mti, ctx.next_sti, isr])
}

/// Harness self-protection, not timer semantics: a generated history never makes a correct implementation
/// loop more than `limit` times inside one tick.  If the context's own target has been left so far behind that
/// the next tick would spin for longer, stop driving it and say so (the Python side reports it).
fn runaway(ctx: &TimerContext, c: u64, limit: u64) -> Option<Value> {
    if !ctx.enabled || limit == 0 {
        return None;
    }
    for (name, p, n) in [
        ("MTI", ctx.mti_period, ctx.next_mti),
        ("STI", ctx.sti_period, ctx.next_sti),
    ] {
        if p > 0 && c >= n && (c - n) / p > limit {
            return Some(json!({"runaway": [name, c, n]}));
        }
    }
    None
}

fn run_case(case: &Value) -> Value {
    let enabled = get_bool(case, "enabled", true);
    let mti = get_u64(case, "mti", 0).min(i32::MAX as u64) as i32;
    let sti = get_u64(case, "sti", 0).min(i32::MAX as u64) as i32;
    let mut ctx = TimerContext::new(enabled, mti, sti);
    let kbd = get_bool(case, "kbd", false);
    if kbd && !get_bool(case, "kbirq", true) {
        ctx.set_keyboard_irq_enabled(false);
    }
    let mut waiting: usize = 0;
    let mut mem = MemoryImage::new();
    mem.write_internal_byte(ISR, get_u64(case, "isr0", 0) as u8);
    let limit = get_u64(case, "runaway", 0);
    let mut last: u64 = 0;
    let mut obs: Vec<Value> = Vec::new();
    let empty = Vec::new();
    let ops = case.get("ops").and_then(|v| v.as_array()).unwrap_or(&empty);
    for op in ops {
        let verb = op.get(0).and_then(|v| v.as_str()).unwrap_or("");
        let arg = op.get(1).and_then(|v| v.as_u64()).unwrap_or(0);
        if verb == "t" || verb == "b" {
            let c = if verb == "t" { arg } else { last + 1 };
            if let Some(r) = runaway(&ctx, c, limit) {
                obs.push(r);
                break;
            }
        }
        match verb {
            "t" => {
                last = arg;
                let w = if kbd { Some(&mut waiting) } else { None };
                obs.push(tick(&mut ctx, &mut mem, arg, w));
            }
            "b" => {
                let mut burst: Vec<Value> = Vec::with_capacity(arg as usize);
                for _ in 0..arg {
                    last += 1;
                    let w = if kbd { Some(&mut waiting) } else { None };
                    burst.push(tick(&mut ctx, &mut mem, last, w));
                }
                obs.push(Value::Array(burst));
            }
            "r" => {
                ctx.reset(arg);
                last = arg;
                obs.push(json!([ctx.next_mti, ctx.next_sti]));
            }
            "s" => {
                let (ti, ii) = ctx.snapshot_info();
                let (ti, ii): (TimerInfo, InterruptInfo) = if arg == 1 {
                    let a = serde_json::to_string(&ti).expect("TimerInfo serialises");
                    let b = serde_json::to_string(&ii).expect("InterruptInfo serialises");
                    (
                        serde_json::from_str(&a).expect("TimerInfo deserialises"),
                        serde_json::from_str(&b).expect("InterruptInfo deserialises"),
                    )
                } else {
                    (ti, ii)
                };
                // Fresh context with unrelated configuration: everything must come from the snapshot.
                let mut fresh = TimerContext::new(!enabled, 2048, 512_000);
                fresh.apply_snapshot_info(&ti, &ii, last);
                ctx = fresh;
                obs.push(json!([ctx.next_mti, ctx.next_sti]));
            }
            "w" => {
                mem.write_internal_byte(ISR, arg as u8);
                obs.push(json!([mem.read_internal_byte(ISR).unwrap_or(0)]));
            }
            "g" => {
                last = arg;
                obs.push(json!([ctx.next_mti, ctx.next_sti]));
            }
            "k" => {
                if kbd {
                    if arg > 0 {
                        waiting += arg as usize;
                    } else {
                        ctx.key_irq_latched = true;
                    }
                }
                obs.push(json!([ctx.key_irq_latched, waiting]));
            }
            "R" => {
                ctx.reset(0);
                last = 0;
                let isr = mem.read_internal_byte(ISR).unwrap_or(0);
                obs.push(json!([ctx.next_mti, ctx.next_sti, 0, isr]));
            }
            _ => return json!({"error": format!("unknown op {verb}")}),
        }
    }
    json!({"obs": obs, "enabled": ctx.enabled, "mti": ctx.mti_period, "sti": ctx.sti_period})
}

/// Machine level: a `CoreRuntime` with a program in RAM (or, with "rom", a ROM image holding main program,
/// interrupt handler and the two vectors), IMR as given (0 = nothing is ever delivered), the runtime's timer
/// replaced by `TimerContext::new(enabled, mti, sti)` (as async_runtime.rs does), stepped one instruction at a
/// time.  Per step the harness may first clear ISR bits (firmware acknowledging), push the runtime through
/// `save_snapshot` -> fresh `CoreRuntime` -> `load_snapshot` (action 1), or reset the machine the way the PyO3
/// wrapper's power_on_reset does (`power_on_reset()` + `timer.reset_full(cycle_count)`, action 2).
/// Before a step the host may also press / release keys of the runtime's KeyboardMatrix and strobe its columns
/// (third element of a step: key ops); "kbirq" selects `TimerContext::set_keyboard_irq_enabled`.
/// Observation after each step:
/// [cycle_count, ISR, next_mti, next_sti, halted, pc, in_interrupt, irq_total, in_interrupt before the step,
///  pc before the step, instructions asked of this `step` call].
/// With "chunks" (round 4) a whole chunk of n instructions is ONE `CoreRuntime::step(n)` call.
fn look(rt: &CoreRuntime) -> Vec<Value> {
    let isr = rt.memory.read_internal_byte(ISR).unwrap_or(0);
    vec![
        json!(rt.cycle_count()),
        json!(isr),
        json!(rt.timer.next_mti),
        json!(rt.timer.next_sti),
        json!(rt.state.is_halted()),
        json!(rt.state.pc()),
        json!(rt.timer.in_interrupt),
        json!(rt.timer.irq_total),
    ]
}

fn rom_image(case: &Value) -> Option<(usize, Vec<u8>)> {
    let rom = case.get("rom")?;
    let base = get_u64(rom, "base", 0xC0000) as usize;
    let size = get_u64(rom, "size", 0x40000) as usize;
    let mut img = vec![0u8; size];
    if let Some(segs) = rom.get("segs").and_then(|v| v.as_array()) {
        for seg in segs {
            let addr = seg.get(0).and_then(|v| v.as_u64()).unwrap_or(0) as usize;
            if let Some(bytes) = seg.get(1).and_then(|v| v.as_array()) {
                for (i, b) in bytes.iter().enumerate() {
                    let a = addr + i;
                    if a >= base && a < base + size {
                        img[a - base] = b.as_u64().unwrap_or(0) as u8;
                    }
                }
            }
        }
    }
    Some((base, img))
}

fn run_machine(case: &Value) -> Value {
    let enabled = get_bool(case, "enabled", true);
    let mti = get_u64(case, "mti", 0).min(i32::MAX as u64) as i32;
    let sti = get_u64(case, "sti", 0).min(i32::MAX as u64) as i32;
    let base = get_u64(case, "base", 0xB8100) as u32;
    let imr = get_u64(case, "imr", 0) as u8;
    let stack = get_u64(case, "stack", 0xBFF00) as u32;
    let prog: Vec<u8> = case
        .get("prog")
        .and_then(|v| v.as_array())
        .map(|a| a.iter().map(|x| x.as_u64().unwrap_or(0) as u8).collect())
        .unwrap_or_default();
    let snap_path = case.get("snap_path").and_then(|v| v.as_str()).unwrap_or("");
    let rom = rom_image(case);
    let mut rt = CoreRuntime::new();
    match rom.as_ref() {
        Some((rbase, img)) => rt.load_rom(img, *rbase),
        None => rt.load_rom(&prog, base as usize),
    }
    rt.state.set_pc(base);
    rt.set_reg("S", stack);
    rt.memory.write_internal_byte(0xFB, imr);
    rt.memory.write_internal_byte(ISR, 0);
    *rt.timer = TimerContext::new(enabled, mti, sti);
    if let Some(b) = case.get("timer_base").and_then(|v| v.as_u64()) {
        rt.timer.reset(b);
    }
    if case.get("kbirq").is_some() {
        rt.timer
            .set_keyboard_irq_enabled(get_bool(case, "kbirq", true));
    }
    let mut obs: Vec<Value> = Vec::new();
    let empty = Vec::new();
    let steps = case.get("steps").and_then(|v| v.as_array()).unwrap_or(&empty);
    // "chunks": [n1, n2, ...] (optional, sum = number of steps): the host executes n_i instructions with ONE
    // `CoreRuntime::step(n_i)` call (the bulk entry point the real runners use); host actions are those of the
    // first step of the chunk (the Python side plans chunks so that no other step of a chunk carries any) and
    // there is one observation per chunk.  Without "chunks" every step is its own `step(1)` call.
    let chunks: Option<Vec<usize>> = case.get("chunks").and_then(|v| v.as_array()).map(|a| {
        a.iter()
            .map(|x| (x.as_u64().unwrap_or(1) as usize).max(1))
            .collect()
    });
    let mut k: usize = 0;
    let mut ci: usize = 0;
    while k < steps.len() {
        let st = &steps[k];
        let n = match chunks.as_ref() {
            Some(c) => c.get(ci).copied().unwrap_or(1).min(steps.len() - k),
            None => 1,
        };
        k += n;
        ci += 1;
        // st = [clear_mask, action]   action: 0 none, 1 snapshot round trip, 2 machine reset
        let clear = st.get(0).and_then(|v| v.as_u64()).unwrap_or(0) as u8;
        let action = st.get(1).and_then(|v| v.as_u64()).unwrap_or(0);
        if clear != 0 {
            let cur = rt.memory.read_internal_byte(ISR).unwrap_or(0);
            rt.memory.write_internal_byte(ISR, cur & !clear);
        }
        if action == 1 {
            let path = std::path::Path::new(snap_path);
            if let Err(e) = rt.save_snapshot(path) {
                return json!({"error": format!("save_snapshot: {e}"), "obs": obs});
            }
            let mut fresh = CoreRuntime::new();
            if let Some((rbase, img)) = rom.as_ref() {
                fresh.load_rom(img, *rbase);
            }
            if let Err(e) = fresh.load_snapshot(path) {
                return json!({"error": format!("load_snapshot: {e}"), "obs": obs});
            }
            rt = fresh;
            obs.push(json!({"restored": look(&rt)}));
        } else if action == 2 {
            rt.power_on_reset();
            let now = rt.cycle_count();
            rt.timer.reset_full(now);
            if rom.is_none() {
                rt.state.set_pc(base);
            }
            rt.set_reg("S", stack);
            rt.memory.write_internal_byte(0xFB, imr);
            rt.memory.write_internal_byte(ISR, 0);
            obs.push(json!({"reset": look(&rt)}));
        }
        // host keyboard activity before this step: [["kd", name], ["ku", name], ["kol", v], ["koh", v]]
        if let Some(kops) = st.get(2).and_then(|v| v.as_array()) {
            for kop in kops {
                let kind = kop.get(0).and_then(|v| v.as_str()).unwrap_or("");
                let rtm = &mut rt;
                let Some(kb) = rtm.keyboard.as_mut() else {
                    return json!({"error": "runtime has no keyboard", "obs": obs});
                };
                match kind {
                    "kd" | "ku" => {
                        let name = kop.get(1).and_then(|v| v.as_str()).unwrap_or("");
                        let Some(code) = KeyboardMatrix::matrix_code_for_key_name(name) else {
                            return json!({"error": format!("unknown key {name}"), "obs": obs});
                        };
                        if kind == "kd" {
                            kb.press_matrix_code(code, &mut rtm.memory);
                        } else {
                            kb.release_matrix_code(code, &mut rtm.memory);
                        }
                    }
                    "kol" | "koh" => {
                        let v = kop.get(1).and_then(|v| v.as_u64()).unwrap_or(0) as u8;
                        let off = if kind == "kol" { 0xF0 } else { 0xF1 };
                        kb.handle_write(off, v, &mut rtm.memory);
                    }
                    _ => return json!({"error": format!("unknown key op {kind}"), "obs": obs}),
                }
            }
        }
        let in_before = rt.timer.in_interrupt;
        let pc_before = rt.state.pc();
        if let Err(e) = rt.step(n) {
            return json!({"error": format!("step: {e}"), "obs": obs});
        }
        let mut o = look(&rt);
        o.push(json!(in_before));
        o.push(json!(pc_before));
        o.push(json!(n));
        obs.push(Value::Array(o));
    }
    json!({"obs": obs})
}

/// Round 5 -- the *async device-task* entry point: `AsyncTimerKeyboardTask` (the public task that calls
/// `CoreRuntime::tick_timers_and_keyboard` once per driver cycle) spawned on an `AsyncDriver`, with the host
/// acting on the shared runtime between driver slices.  No timer semantics here: every op is one public call.
///   "entry": "run" | "run_for" (then "run_for_cycles": N)       which public method of the task is spawned
///   ["a", c]     let every wake-up scheduled for a driver cycle <= c run: `driver.run_for(c + 1 - driver.clock())`
///   ["w", v]     firmware-style ISR write
///   ["r"]        `timer.reset(now)`                              (now = the cycle of the last ["a"])
///   ["p", m, s]  host reprograms the periods (public fields) and calls `timer.reset(now)`
///   ["c", k]     keep `timer.snapshot_info()` in slot k
///   ["L", k]     `timer.apply_snapshot_info(slot k, now)` on the live timer (restore of an earlier snapshot)
///   ["s", j]     snapshot_info -> (j=1: serde round trip) -> apply_snapshot_info at the same point
/// Observation per op: [next_mti, next_sti, ISR, driver clock, mti_period, sti_period].
fn run_async(case: &Value) -> Value {
    use sc62015_core::{AsyncDriver, AsyncTimerKeyboardTask};
    use std::cell::RefCell;
    use std::rc::Rc;

    let enabled = get_bool(case, "enabled", true);
    let mti = get_u64(case, "mti", 0).min(i32::MAX as u64) as i32;
    let sti = get_u64(case, "sti", 0).min(i32::MAX as u64) as i32;
    let mut rt = CoreRuntime::new();
    *rt.timer = TimerContext::new(enabled, mti, sti);
    rt.memory
        .write_internal_byte(ISR, get_u64(case, "isr0", 0) as u8);
    let runtime = Rc::new(RefCell::new(rt));
    let task = AsyncTimerKeyboardTask::new(runtime.clone());
    let mut driver = AsyncDriver::new();
    let entry = case.get("entry").and_then(|v| v.as_str()).unwrap_or("run");
    let n_for = get_u64(case, "run_for_cycles", 0);
    if entry == "run_for" {
        driver.spawn(async move {
            task.run_for(n_for).await;
        });
    } else {
        driver.spawn(async move {
            task.run().await;
        });
    }
    let mut slots: Vec<Option<(TimerInfo, InterruptInfo)>> = vec![None, None, None, None];
    let mut now: u64 = 0;
    let mut obs: Vec<Value> = Vec::new();
    let empty = Vec::new();
    let ops = case.get("ops").and_then(|v| v.as_array()).unwrap_or(&empty);
    for op in ops {
        let verb = op.get(0).and_then(|v| v.as_str()).unwrap_or("");
        let arg = op.get(1).and_then(|v| v.as_u64()).unwrap_or(0);
        let arg2 = op.get(2).and_then(|v| v.as_u64()).unwrap_or(0);
        match verb {
            "a" => {
                if arg + 1 > driver.clock() {
                    let budget = arg + 1 - driver.clock();
                    let _ = driver.run_for(budget);
                }
                now = arg;
            }
            "w" => {
                runtime
                    .borrow_mut()
                    .memory
                    .write_internal_byte(ISR, arg as u8);
            }
            "r" => {
                runtime.borrow_mut().timer.reset(now);
            }
            "p" => {
                let mut rt = runtime.borrow_mut();
                rt.timer.mti_period = arg;
                rt.timer.sti_period = arg2;
                rt.timer.reset(now);
            }
            "c" => {
                let k = (arg as usize).min(slots.len() - 1);
                slots[k] = Some(runtime.borrow().timer.snapshot_info());
            }
            "L" => {
                let k = (arg as usize).min(slots.len() - 1);
                match slots[k].as_ref() {
                    Some((ti, ii)) => runtime.borrow_mut().timer.apply_snapshot_info(ti, ii, now),
                    None => return json!({"error": format!("slot {k} is empty"), "obs": obs}),
                }
            }
            "s" => {
                let (ti, ii) = runtime.borrow().timer.snapshot_info();
                let (ti, ii): (TimerInfo, InterruptInfo) = if arg == 1 {
                    let a = serde_json::to_string(&ti).expect("TimerInfo serialises");
                    let b = serde_json::to_string(&ii).expect("InterruptInfo serialises");
                    (
                        serde_json::from_str(&a).expect("TimerInfo deserialises"),
                        serde_json::from_str(&b).expect("InterruptInfo deserialises"),
                    )
                } else {
                    (ti, ii)
                };
                runtime
                    .borrow_mut()
                    .timer
                    .apply_snapshot_info(&ti, &ii, now);
            }
            _ => return json!({"error": format!("unknown op {verb}")}),
        }
        let rt = runtime.borrow();
        let isr = rt.memory.read_internal_byte(ISR).unwrap_or(0);
        obs.push(json!([
            rt.timer.next_mti,
            rt.timer.next_sti,
            isr,
            driver.clock(),
            rt.timer.mti_period,
            rt.timer.sti_period
        ]));
    }
    json!({"obs": obs})
}

fn guarded<F: FnOnce() -> Value>(f: F) -> Value {
    match std::panic::catch_unwind(std::panic::AssertUnwindSafe(f)) {
        Ok(v) => v,
        Err(e) => {
            let msg = if let Some(s) = e.downcast_ref::<&str>() {
                s.to_string()
            } else if let Some(s) = e.downcast_ref::<String>() {
                s.clone()
            } else {
                "panic".to_string()
            };
            json!({"panic": msg})
        }
    }
}

pub fn handle(verb: &str, req: &Value, _st: &mut State) -> Value {
    match verb {
        "machine" => {
            let empty = Vec::new();
            let cases = req.get("cases").and_then(|v| v.as_array()).unwrap_or(&empty);
            let results: Vec<Value> = cases.iter().map(|c| guarded(|| run_machine(c))).collect();
            json!({"ok": true, "results": results})
        }
        "async" => {
            let empty = Vec::new();
            let cases = req.get("cases").and_then(|v| v.as_array()).unwrap_or(&empty);
            let results: Vec<Value> = cases.iter().map(|c| guarded(|| run_async(c))).collect();
            json!({"ok": true, "results": results})
        }
        "batch" => {
            let empty = Vec::new();
            let cases = req.get("cases").and_then(|v| v.as_array()).unwrap_or(&empty);
            let mut results: Vec<Value> = Vec::with_capacity(cases.len());
            for case in cases {
                let r = std::panic::catch_unwind(std::panic::AssertUnwindSafe(|| run_case(case)));
                results.push(match r {
                    Ok(v) => v,
                    Err(e) => {
                        let msg = if let Some(s) = e.downcast_ref::<&str>() {
                            s.to_string()
                        } else if let Some(s) = e.downcast_ref::<String>() {
                            s.clone()
                        } else {
                            "panic".to_string()
                        };
                        json!({"panic": msg})
                    }
                });
            }
            json!({"ok": true, "results": results})
        }
        _ => err(format!("unknown c13 verb {verb}")),
    }
}
