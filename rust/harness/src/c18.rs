//! c18 -- virtual-time scheduler (AsyncDriver) and async CPU runner observations.
//!
//! Thin adapter, no semantics of its own:
//!  * `c18.sched`  : interpret scripted tasks (generic `async fn`s that call the crate's public
//!    `sleep_cycles` / `emit_event` / `current_cycle`) on a real `AsyncDriver`, call `run_for` with the
//!    requested budgets and report what was observed (resumption log, `DriverRunResult`s, `clock()`).
//!  * `c18.cpu`    : build two identical `CoreRuntime`s from a memory image / register file, drive one
//!    with `AsyncRuntimeRunner::run_instructions`, the other with `CoreRuntime::step`, report both.
//!
//! All verdicts are computed on the Python side (vp_harness/props/c18.py).
use crate::util::{err, get_u64};
use sc62015_core::async_driver::{
    current_cycle, emit_event, sleep_cycles, AsyncDriver, CycleSleep, DriverEvent,
};
use sc62015_core::llama::opcodes::RegName;
use sc62015_core::llama::state::PowerState;
use sc62015_core::{collect_registers, AsyncRuntimeRunner, CoreRuntime, TimerContext};
use serde_json::{json, Map, Value};
use std::cell::{Cell, RefCell};
use std::collections::BTreeMap;
use std::future::Future;
use std::pin::Pin;
use std::rc::Rc;
use std::task::{Context, Poll};

#[derive(Default)]
pub struct State {}

// ------------------------------------------------------------------------------------------------
// scripted tasks
// ------------------------------------------------------------------------------------------------

#[derive(Clone)]
enum Op {
    Sleep(u64),
    /// Return `Poll::Pending` once without registering a wake-up (the crate's own unit test
    /// `pending_without_sleep_advances_by_one` documents what the driver does with it).
    Yield,
}

/// Where the `CycleSleep` future awaited by an op is *constructed* (`sleep_cycles(d)` is called).  The crate's
/// sleep future is inert until it is polled, so this is only a question of which line of the task (or of the
/// host) the constructor call stands on.
#[derive(Clone, Copy, PartialEq)]
enum Mk {
    /// `sleep_cycles(d).await` -- constructed in the resumption that awaits it
    Inline,
    /// `let nap = sleep_cycles(d);` k resumptions before the one that does `nap.await` (clipped to the task's
    /// first poll)
    Earlier(u64),
    /// constructed by the host right before `driver.spawn(task)` and moved into the task
    HostSpawn,
    /// constructed by the host right after the driver was constructed (before any `run_for`)
    HostNew,
}

#[derive(Clone)]
struct Script {
    at: u64,
    start_emit: Option<u32>,
    ops: Vec<(Op, Option<u32>)>,
    /// per op: construction place of its sleep future (empty = all inline)
    mk: Vec<Mk>,
    /// (resumption, d): `let _ = sleep_cycles(d);` in that resumption (-1 = first poll, i = the resumption that
    /// follows op i) -- a sleep future that is constructed and dropped without ever being awaited
    ghosts: Vec<(i64, u64)>,
}

impl Script {
    /// resumption (-1 = first poll, i = after op i) -> ops whose sleep future is constructed there;
    /// resumption -> durations of the ghosts constructed there
    fn plan(&self) -> (BTreeMap<i64, Vec<usize>>, BTreeMap<i64, Vec<u64>>) {
        let mut arm: BTreeMap<i64, Vec<usize>> = BTreeMap::new();
        for (j, m) in self.mk.iter().enumerate() {
            if let Mk::Earlier(k) = m {
                let at = (j as i64 - 1).saturating_sub((*k).min(i64::MAX as u64) as i64).max(-1);
                arm.entry(at).or_default().push(j);
            }
        }
        let mut gh: BTreeMap<i64, Vec<u64>> = BTreeMap::new();
        for (r, d) in self.ghosts.iter() {
            gh.entry(*r).or_default().push(*d);
        }
        (arm, gh)
    }

    /// the sleep futures the host constructs for this script at the given place
    fn host_built(&self, place: Mk, armed: &mut Vec<Option<CycleSleep>>) {
        if self.mk.is_empty() {
            return;
        }
        if armed.len() < self.ops.len() {
            armed.resize_with(self.ops.len(), || None);
        }
        for (j, m) in self.mk.iter().enumerate() {
            if *m == place {
                if let Op::Sleep(d) = self.ops[j].0 {
                    armed[j] = Some(sleep_cycles(d));
                }
            }
        }
    }
}

struct YieldOnce {
    polled: bool,
}

impl Future for YieldOnce {
    type Output = ();
    fn poll(self: Pin<&mut Self>, _cx: &mut Context<'_>) -> Poll<()> {
        let this = self.get_mut();
        if this.polled {
            Poll::Ready(())
        } else {
            this.polled = true;
            Poll::Pending
        }
    }
}

struct Shared {
    /// (task, step index or -1 for the first poll, current_cycle(), index of the run_for call)
    log: RefCell<Vec<(u64, i64, u64, u64)>>,
    call: Cell<u64>,
    done: Cell<u64>,
}

/// `armed[j]` = the sleep future of op j if the host constructed it (see `Mk`), else None.
async fn scripted(id: u64, script: Script, sh: Rc<Shared>, mut armed: Vec<Option<CycleSleep>>) {
    let (arm, gh) = script.plan();
    let plain = arm.is_empty() && gh.is_empty();
    if !plain && armed.len() < script.ops.len() {
        armed.resize_with(script.ops.len(), || None);
    }
    // what a resumption does besides logging/emitting: `let nap_j = sleep_cycles(d_j);` for later ops
    let construct = |r: i64, armed: &mut Vec<Option<CycleSleep>>| {
        if let Some(js) = arm.get(&r) {
            for j in js {
                if let Op::Sleep(d) = script.ops[*j].0 {
                    armed[*j] = Some(sleep_cycles(d));
                }
            }
        }
        if let Some(ds) = gh.get(&r) {
            for d in ds {
                let _ = sleep_cycles(*d);
            }
        }
    };
    sh.log
        .borrow_mut()
        .push((id, -1, current_cycle(), sh.call.get()));
    if let Some(ev) = script.start_emit {
        emit_event(DriverEvent::User(ev));
    }
    if !plain {
        construct(-1, &mut armed);
    }
    for (i, (op, ev)) in script.ops.iter().enumerate() {
        match op {
            Op::Sleep(d) => match armed.get_mut(i).and_then(|x| x.take()) {
                Some(nap) => nap.await,
                None => sleep_cycles(*d).await,
            },
            Op::Yield => YieldOnce { polled: false }.await,
        }
        sh.log
            .borrow_mut()
            .push((id, i as i64, current_cycle(), sh.call.get()));
        if let Some(ev) = ev {
            emit_event(DriverEvent::User(*ev));
        }
        if !plain {
            construct(i as i64, &mut armed);
        }
    }
    sh.done.set(sh.done.get() + 1);
}

/// The future handed to `block_on` by an interlude: same script language as `scripted`, nothing logged
/// (`block_on` is not a subject, only another user of the thread's scheduler channel).
async fn interlude(script: Script) {
    if let Some(ev) = script.start_emit {
        emit_event(DriverEvent::User(ev));
    }
    for (op, ev) in script.ops.iter() {
        match op {
            Op::Sleep(d) => sleep_cycles(*d).await,
            Op::Yield => YieldOnce { polled: false }.await,
        }
        if let Some(ev) = ev {
            emit_event(DriverEvent::User(*ev));
        }
    }
}

/// An interlude entry is either a plain list of durations (`block_on` of a future sleeping them in turn) or a
/// script object `{"se": ev?, "ops": [[d, ev?], ...]}` whose future also emits events.
fn parse_interlude(v: &Value) -> Result<Option<Script>, String> {
    if let Some(ds) = v.as_array() {
        let ops = ds
            .iter()
            .map(|x| (Op::Sleep(x.as_u64().unwrap_or(0)), None))
            .collect();
        return Ok(Some(Script {
            at: 0,
            start_emit: None,
            ops,
            mk: Vec::new(),
            ghosts: Vec::new(),
        }));
    }
    if v.is_object() {
        return parse_script(v).map(Some);
    }
    Ok(None)
}

fn emits(s: &Script) -> bool {
    s.start_emit.is_some() || s.ops.iter().any(|(_, e)| e.is_some())
}

/// Every case starts from an empty event slot: the harness process is one long-lived thread, so whatever an
/// earlier case left in the crate's thread-locals must not become an input of the next one (a case has to
/// replay on its own).  Only public API: a scratch driver polls one empty task, which makes it collect (and
/// the harness drop) a pending event if there is one.
fn settle_thread() {
    let mut d = AsyncDriver::new();
    d.spawn(async {});
    let _ = d.run_for(1);
}

fn parse_script(v: &Value) -> Result<Script, String> {
    let at = get_u64(v, "at", 0);
    let start_emit = v.get("se").and_then(|x| x.as_u64()).map(|x| x as u32);
    let mut ops = Vec::new();
    let mut mk: Vec<Mk> = Vec::new();
    if let Some(arr) = v.get("ops").and_then(|x| x.as_array()) {
        for o in arr {
            let d = o.get(0).ok_or("op without duration")?;
            let op = if let Some(u) = d.as_u64() {
                Op::Sleep(u)
            } else if d.as_i64().map(|x| x < 0).unwrap_or(false) {
                Op::Yield
            } else {
                return Err(format!("bad op duration {d}"));
            };
            let ev = o.get(1).and_then(|x| x.as_u64()).map(|x| x as u32);
            // optional third element: the op is performed `rep` times in a row (compact notation for
            // long chains); the event, if any, belongs to the last repetition
            let rep = o.get(2).and_then(|x| x.as_u64()).unwrap_or(1);
            // optional fourth element: where the sleep future of the (last repetition of the) op is
            // constructed -- k >= 1: k resumptions earlier, "spawn" / "new": by the host
            let m = match o.get(3) {
                None | Some(Value::Null) => Mk::Inline,
                Some(x) => match (x.as_u64(), x.as_str()) {
                    (Some(0), _) => Mk::Inline,
                    (Some(k), _) => Mk::Earlier(k),
                    (_, Some("spawn")) => Mk::HostSpawn,
                    (_, Some("new")) => Mk::HostNew,
                    _ => return Err(format!("bad op construction place {x}")),
                },
            };
            for _ in 1..rep {
                ops.push((op.clone(), None));
            }
            if rep >= 1 {
                ops.push((op, ev));
                if m != Mk::Inline {
                    mk.resize(ops.len() - 1, Mk::Inline);
                    mk.push(m);
                }
            }
        }
    }
    if !mk.is_empty() {
        mk.resize(ops.len(), Mk::Inline);
    }
    let mut ghosts = Vec::new();
    if let Some(arr) = v.get("gh").and_then(|x| x.as_array()) {
        for g in arr {
            let r = g.get(0).and_then(|x| x.as_i64()).ok_or("ghost without resumption")?;
            let d = g.get(1).and_then(|x| x.as_u64()).ok_or("ghost without duration")?;
            ghosts.push((r, d));
        }
    }
    Ok(Script {
        at,
        start_emit,
        ops,
        mk,
        ghosts,
    })
}

/// One `AsyncDriver` with its scripted tasks and budget list; `step` performs exactly one `run_for` call
/// (after spawning the tasks that are due before that call).  `c18.sched` runs one session to its end,
/// `c18.multi` keeps several sessions alive on the thread and steps them in a requested order.
struct Session {
    scripts: Vec<Script>,
    budgets: Vec<u64>,
    tail_budget: u64,
    tail_max: u64,
    sh: Rc<Shared>,
    driver: AsyncDriver,
    /// per script: sleep futures the host constructed right after the driver (`Mk::HostNew`)
    host_armed: Vec<Vec<Option<CycleSleep>>>,
    results: Vec<Value>,
    spawn_clock: Vec<Value>,
    used_budgets: Vec<u64>,
    call: u64,
    tail_calls: u64,
    finished: bool,
}

impl Session {
    fn new(case: &Value) -> Result<Session, String> {
        let clock0 = get_u64(case, "clock0", 0);
        let mut scripts = Vec::new();
        if let Some(arr) = case.get("tasks").and_then(|x| x.as_array()) {
            for t in arr {
                scripts.push(parse_script(t)?);
            }
        }
        let budgets: Vec<u64> = case
            .get("budgets")
            .and_then(|x| x.as_array())
            .map(|a| a.iter().map(|x| x.as_u64().unwrap_or(0)).collect())
            .unwrap_or_default();
        let driver = if case.get("clock0").is_some() {
            AsyncDriver::with_clock(clock0)
        } else {
            AsyncDriver::new()
        };
        let n = scripts.len();
        let mut host_armed: Vec<Vec<Option<CycleSleep>>> = Vec::with_capacity(n);
        for sc in scripts.iter() {
            let mut a = Vec::new();
            sc.host_built(Mk::HostNew, &mut a);
            host_armed.push(a);
        }
        Ok(Session {
            scripts,
            budgets,
            tail_budget: get_u64(case, "tail_budget", 0),
            tail_max: get_u64(case, "tail_max", 0),
            sh: Rc::new(Shared {
                log: RefCell::new(Vec::new()),
                call: Cell::new(0),
                done: Cell::new(0),
            }),
            driver,
            host_armed,
            results: Vec::new(),
            spawn_clock: vec![Value::Null; n],
            used_budgets: Vec::new(),
            call: 0,
            tail_calls: 0,
            finished: false,
        })
    }

    /// One `run_for` call.  Returns false (and does nothing) once the session is over.
    fn step(&mut self) -> bool {
        if self.finished {
            return false;
        }
        let call = self.call;
        let budget = if (call as usize) < self.budgets.len() {
            self.budgets[call as usize]
        } else {
            // tail phase: keep calling until every task finished and the driver reports MaxCycles
            if self.tail_calls >= self.tail_max {
                self.finished = true;
                return false;
            }
            self.tail_calls += 1;
            self.tail_budget
        };
        for (i, s) in self.scripts.iter().enumerate() {
            if s.at == call {
                self.spawn_clock[i] = json!(self.driver.clock());
                let mut armed = std::mem::take(&mut self.host_armed[i]);
                s.host_built(Mk::HostSpawn, &mut armed);
                self.driver
                    .spawn(scripted(i as u64, s.clone(), self.sh.clone(), armed));
            }
        }
        self.sh.call.set(call);
        let r = self.driver.run_for(budget);
        self.used_budgets.push(budget);
        let ev = match r.event {
            DriverEvent::MaxCycles => Value::Null,
            DriverEvent::User(x) => json!(x),
        };
        self.results
            .push(json!([ev, r.cycles_executed, self.driver.clock()]));
        self.call += 1;
        let call = self.call;
        if (call as usize) >= self.budgets.len()
            && r.event == DriverEvent::MaxCycles
            && self.sh.done.get() == self.scripts.len() as u64
            && self.scripts.iter().all(|s| s.at < call)
        {
            self.finished = true;
        }
        true
    }

    fn report(&self) -> Value {
        let log: Vec<Value> = self
            .sh
            .log
            .borrow()
            .iter()
            .map(|(t, s, c, k)| json!([t, s, c, k]))
            .collect();
        json!({
            "ok": true,
            "log": log,
            "results": self.results,
            "budgets": self.used_budgets,
            "spawn_clock": self.spawn_clock,
            "done": self.sh.done.get(),
        })
    }
}

fn run_sched(case: &Value) -> Value {
    let mut s = match Session::new(case) {
        Ok(s) => s,
        Err(e) => return err(e),
    };
    while s.step() {}
    s.report()
}

/// Several drivers alive on ONE thread, stepped in a requested order.
/// `{"drivers": [sched case, ...], "create": "upfront" | "lazy", "order": [entry, ...]}` where an entry is
/// a driver index (one `run_for` call of that driver; a no-op once it is over), a list of durations
/// (`block_on` of a future that sleeps them in turn -- another user of the thread's scheduler channel) or a
/// script object (`block_on` of a future that also emits events, see `parse_interlude`).
/// When `order` is exhausted the unfinished drivers are stepped round-robin until all are over.
/// The answer holds one ordinary observation per driver.
fn run_multi(case: &Value) -> Value {
    let empty = Vec::new();
    let dcases = case
        .get("drivers")
        .and_then(|x| x.as_array())
        .unwrap_or(&empty);
    let lazy = case.get("create").and_then(|x| x.as_str()) == Some("lazy");
    let mut sessions: Vec<Option<Session>> = Vec::new();
    for d in dcases {
        if lazy {
            sessions.push(None);
        } else {
            match Session::new(d) {
                Ok(s) => sessions.push(Some(s)),
                Err(e) => return err(e),
            }
        }
    }
    let mut executed: Vec<Value> = Vec::new();
    let mut extra_tail: u64 = 0;
    let step_one =
        |sessions: &mut Vec<Option<Session>>, i: usize, extra_tail: u64| -> Result<bool, String> {
            if i >= sessions.len() {
                return Err(format!("driver index {i} out of range"));
            }
            if sessions[i].is_none() {
                let mut s = Session::new(&dcases[i])?;
                s.tail_max += extra_tail;
                sessions[i] = Some(s);
            }
            Ok(sessions[i].as_mut().unwrap().step())
        };
    if let Some(order) = case.get("order").and_then(|x| x.as_array()) {
        for e in order {
            if let Some(i) = e.as_u64() {
                match step_one(&mut sessions, i as usize, extra_tail) {
                    Ok(true) => executed.push(json!(i)),
                    Ok(false) => {}
                    Err(e) => return err(e),
                }
            } else {
                match parse_interlude(e) {
                    Ok(Some(script)) => {
                        if emits(&script) {
                            // a phantom event (if the driver under test picks one up) costs one run_for
                            // call; keep enough tail calls for the scripts to finish regardless
                            for s in sessions.iter_mut().flatten() {
                                s.tail_max += 1;
                            }
                            extra_tail += 1;
                        }
                        sc62015_core::async_driver::block_on(interlude(script));
                        executed.push(json!("block_on"));
                    }
                    Ok(None) => {}
                    Err(e) => return err(e),
                }
            }
        }
    }
    loop {
        let mut any = false;
        for i in 0..sessions.len() {
            match step_one(&mut sessions, i, extra_tail) {
                Ok(true) => {
                    any = true;
                    if executed.len() < 4096 {
                        executed.push(json!(i));
                    }
                }
                Ok(false) => {}
                Err(e) => return err(e),
            }
        }
        if !any {
            break;
        }
    }
    let obs: Vec<Value> = sessions
        .iter()
        .map(|s| s.as_ref().map(|s| s.report()).unwrap_or(Value::Null))
        .collect();
    json!({"ok": true, "drivers": obs, "executed": executed})
}

// ------------------------------------------------------------------------------------------------
// CPU: AsyncRuntimeRunner::run_instructions vs CoreRuntime::step on identical twins
// ------------------------------------------------------------------------------------------------

fn hex_decode(s: &str) -> Vec<u8> {
    let b = s.as_bytes();
    let mut out = Vec::with_capacity(b.len() / 2);
    let nib = |c: u8| -> u8 {
        match c {
            b'0'..=b'9' => c - b'0',
            b'a'..=b'f' => c - b'a' + 10,
            b'A'..=b'F' => c - b'A' + 10,
            _ => 0,
        }
    };
    let mut i = 0;
    while i + 1 < b.len() {
        out.push((nib(b[i]) << 4) | nib(b[i + 1]));
        i += 2;
    }
    out
}

fn hex_encode(data: &[u8]) -> String {
    const H: &[u8; 16] = b"0123456789abcdef";
    let mut s = String::with_capacity(data.len() * 2);
    for b in data {
        s.push(H[(b >> 4) as usize] as char);
        s.push(H[(b & 15) as usize] as char);
    }
    s
}

fn reg_by_name(name: &str) -> Option<RegName> {
    crate::cpu::reg_by_name(name)
}

fn build_runtime(case: &Value) -> CoreRuntime {
    let mut rt = CoreRuntime::new();
    if let Some(chunks) = case.get("image").and_then(|x| x.as_array()) {
        for ch in chunks {
            let addr = ch.get(0).and_then(|x| x.as_u64()).unwrap_or(0) as usize;
            let data = hex_decode(ch.get(1).and_then(|x| x.as_str()).unwrap_or(""));
            rt.load_rom(&data, addr);
        }
    }
    if let Some(im) = case.get("imem").and_then(|x| x.as_array()) {
        for pair in im {
            let off = pair.get(0).and_then(|x| x.as_u64()).unwrap_or(0) as u32;
            let val = pair.get(1).and_then(|x| x.as_u64()).unwrap_or(0) as u8;
            rt.memory.write_internal_byte(off & 0xFF, val);
        }
    }
    if let Some(regs) = case.get("regs").and_then(|x| x.as_object()) {
        let order = ["BA", "I", "X", "Y", "U", "S", "PC", "F", "IMR"];
        for n in order.iter() {
            if let Some(v) = regs.get(*n).and_then(|x| x.as_u64()) {
                rt.state.set_reg(reg_by_name(n).unwrap(), v as u32);
            }
        }
    }
    if let Some(t) = case.get("timer") {
        let enabled = t.get("enabled").and_then(|x| x.as_bool()).unwrap_or(false);
        let mti = get_u64(t, "mti", 0) as i32;
        let sti = get_u64(t, "sti", 0) as i32;
        *rt.timer = TimerContext::new(enabled, mti, sti);
        rt.timer.reset(0);
        if let Some(k) = t.get("kb_irq").and_then(|x| x.as_bool()) {
            rt.timer.set_keyboard_irq_enabled(k);
        }
    }
    if let Some(keys) = case.get("keys").and_then(|x| x.as_array()) {
        if let Some(kb) = rt.keyboard.as_mut() {
            for k in keys {
                kb.press_matrix_code(k.as_u64().unwrap_or(0) as u8, &mut rt.memory);
            }
        }
    }
    rt
}

fn observe(rt: &CoreRuntime, image_base: &[u8]) -> Value {
    let mut m = Map::new();
    let regs = collect_registers(&rt.state);
    let mut names: Vec<&String> = regs.keys().collect();
    names.sort();
    let mut rj = Map::new();
    for n in names {
        rj.insert(n.clone(), json!(regs[n]));
    }
    m.insert("regs".into(), Value::Object(rj));
    m.insert(
        "power".into(),
        json!(match rt.state.power_state() {
            PowerState::Running => "running",
            PowerState::Halted => "halted",
            PowerState::Off => "off",
        }),
    );
    m.insert("instr".into(), json!(rt.instruction_count()));
    m.insert("cycles".into(), json!(rt.cycle_count()));
    m.insert("imem".into(), json!(hex_encode(rt.memory.internal_slice())));
    // external memory: bytes that differ from the initial image (a neutral observation)
    let ext = rt.memory.external_slice();
    let mut changed: Vec<Value> = Vec::new();
    let n = ext.len().min(image_base.len());
    for i in 0..n {
        if ext[i] != image_base[i] {
            if changed.len() < 4096 {
                changed.push(json!([i, ext[i]]));
            }
        }
    }
    m.insert("ext_changed".into(), Value::Array(changed));
    m.insert("reads".into(), json!(rt.memory.memory_read_count()));
    m.insert("writes".into(), json!(rt.memory.memory_write_count()));
    let (ti, ii) = rt.timer.snapshot_info();
    m.insert("timer".into(), serde_json::to_value(&ti).unwrap_or(Value::Null));
    let mut iv = serde_json::to_value(&ii).unwrap_or(Value::Null);
    if let Some(o) = iv.as_object_mut() {
        o.remove("irq_bit_watch");
    }
    m.insert("irq".into(), iv);
    m.insert("next_mti".into(), json!(rt.timer.next_mti));
    m.insert("next_sti".into(), json!(rt.timer.next_sti));
    m.insert("call_depth".into(), json!(rt.state.call_depth()));
    if let Some(kb) = rt.keyboard.as_ref() {
        m.insert("kb_fifo".into(), json!(kb.fifo_len()));
    }
    Value::Object(m)
}

/// Call-count watchdog for the host loop `AsyncRuntimeRunner::run_instructions` runs around its driver
/// (`loop { run_for(slice) }` until the task's completion event; an idle call makes the slice grow by one).
/// That loop lives in the crate and has no exit other than the event, so a driver that does not serve a due
/// wake-up under the runner's (clock, slice) would spin there forever and the harness could only report a
/// wall-clock timeout.  The same loop is therefore first run here, bounded, on a scratch driver with the clock
/// the runner's driver starts from and a task of the runner's shape (sleep one cycle, finish, emit the completion
/// event).  The unchanged crate needs at most 3 calls (slice 1: poll, idle call, slice 2).  Returns a description
/// of the stall, or None.
const HOST_LOOP_CALLS: u64 = 1000;

fn host_loop_probe(clock: u64, slice: u64) -> Option<Value> {
    let mut d = AsyncDriver::with_clock(clock);
    d.spawn(async {
        sleep_cycles(1).await;
        emit_event(DriverEvent::User(1));
    });
    let mut s = slice.max(1);
    let mut idle = 0u64;
    for _ in 0..HOST_LOOP_CALLS {
        let r = d.run_for(s);
        match r.event {
            DriverEvent::MaxCycles => {
                if r.cycles_executed == 0 {
                    idle += 1;
                    s = s.saturating_add(1);
                }
            }
            DriverEvent::User(_) => return None,
        }
    }
    Some(json!({"clock": clock, "slice": slice, "calls": HOST_LOOP_CALLS, "idle_calls": idle,
                "clock_after": d.clock(), "slice_after": s}))
}

fn run_cpu(case: &Value) -> Value {
    let warm = get_u64(case, "warm", 0) as usize;
    let slice = get_u64(case, "slice", 10_000);
    let default_slice = case.get("slice").is_none();
    let calls: Vec<usize> = case
        .get("calls")
        .and_then(|x| x.as_array())
        .map(|a| a.iter().map(|x| x.as_u64().unwrap_or(0) as usize).collect())
        .unwrap_or_default();
    let fresh_runner = case
        .get("fresh_runner")
        .and_then(|x| x.as_bool())
        .unwrap_or(false);

    // --- synchronous twin
    let mut sync_rt = build_runtime(case);
    let base: Vec<u8> = sync_rt.memory.external_slice().to_vec();
    let mut sync_out = Vec::new();
    let mut call_clocks: Vec<u64> = Vec::new();
    let warm_err_s = sync_rt.step(warm).err().map(|e| e.to_string());
    let sync_start = observe(&sync_rt, &base);
    for n in calls.iter() {
        let i0 = sync_rt.instruction_count();
        let c0 = sync_rt.cycle_count();
        call_clocks.push(c0);
        let e = sync_rt.step(*n).err().map(|e| e.to_string());
        sync_out.push(json!({
            "err": e,
            "d_instr": sync_rt.instruction_count() - i0,
            "d_cycles": sync_rt.cycle_count() - c0,
            "state": observe(&sync_rt, &base),
        }));
    }

    // --- asynchronous twin
    let mut async_rt = build_runtime(case);
    let warm_err_a = async_rt.step(warm).err().map(|e| e.to_string());
    let async_start = observe(&async_rt, &base);
    // bounded rehearsal of the runner's host loop for every (clock at call k, slice) of this case; a stall is
    // reported instead of entering the crate's unbounded loop
    for (k, c0) in call_clocks.iter().enumerate() {
        if let Some(mut st) = host_loop_probe(*c0, slice) {
            st["call"] = json!(k);
            return json!({
                "ok": true,
                "warm_err": [warm_err_s, warm_err_a],
                "start": [sync_start, async_start],
                "sync": sync_out,
                "async": [],
                "stall": st,
            });
        }
    }
    let rc = Rc::new(RefCell::new(async_rt));
    let mk = |rc: &Rc<RefCell<CoreRuntime>>| {
        let r = AsyncRuntimeRunner::new(rc.clone());
        if default_slice {
            r
        } else {
            r.with_slice_cycles(slice)
        }
    };
    // optional: before call i, `block_on` of a scripted future on this thread (null = nothing)
    let interludes: Vec<Value> = case
        .get("interludes")
        .and_then(|x| x.as_array())
        .cloned()
        .unwrap_or_default();
    let mut runner = mk(&rc);
    let mut async_out = Vec::new();
    for (k, n) in calls.iter().enumerate() {
        if let Some(v) = interludes.get(k) {
            match parse_interlude(v) {
                Ok(Some(script)) => sc62015_core::async_driver::block_on(interlude(script)),
                Ok(None) => {}
                Err(e) => return err(e),
            }
        }
        if fresh_runner {
            runner = mk(&rc);
        }
        let (i0, c0) = {
            let rt = rc.borrow();
            (rt.instruction_count(), rt.cycle_count())
        };
        let res = runner.run_instructions(*n);
        let rt = rc.borrow();
        let (e, si, sc) = match res {
            Ok(st) => (
                Value::Null,
                json!(st.instructions_executed),
                json!(st.cycles_executed),
            ),
            Err(e) => (json!(e.to_string()), Value::Null, Value::Null),
        };
        async_out.push(json!({
            "err": e,
            "stats_instr": si,
            "stats_cycles": sc,
            "d_instr": rt.instruction_count() - i0,
            "d_cycles": rt.cycle_count() - c0,
            "state": observe(&rt, &base),
        }));
    }
    json!({
        "ok": true,
        "warm_err": [warm_err_s, warm_err_a],
        "start": [sync_start, async_start],
        "sync": sync_out,
        "async": async_out,
    })
}

pub fn handle(verb: &str, req: &Value, _st: &mut State) -> Value {
    match verb {
        "sched" | "cpu" | "multi" => {
            let f = match verb {
                "sched" => run_sched,
                "multi" => run_multi,
                _ => run_cpu,
            };
            let cases = match req.get("cases").and_then(|x| x.as_array()) {
                Some(c) => c,
                None => return err("cases missing"),
            };
            let mut out = Vec::with_capacity(cases.len());
            for c in cases {
                let r = std::panic::catch_unwind(std::panic::AssertUnwindSafe(|| {
                    settle_thread();
                    f(c)
                }));
                out.push(match r {
                    Ok(v) => v,
                    Err(e) => {
                        let msg = if let Some(s) = e.downcast_ref::<&str>() {
                            s.to_string()
                        } else if let Some(s) = e.downcast_ref::<String>() {
                            s.clone()
                        } else {
                            "panic".to_string()
                        };
                        json!({"ok": false, "panic": msg})
                    }
                });
            }
            json!({"ok": true, "results": out})
        }
        _ => err(format!("unknown c18 verb {verb}")),
    }
}
