//! `vh_c05` -- C05's own JSON-lines adapter over `sc62015_core::CoreRuntime` (a separate binary of the
//! harness package so that the shared dispatcher `main.rs` stays untouched; cargo discovers `src/bin/*.rs`).
//!
//! It holds no semantics: a case is a machine built by `CoreRuntime::new()` (timers stay disabled, no ROM,
//! flat zero-filled external memory), optionally `enable_sio_stub()`, registers through
//! `LlamaState::set_reg/set_pc`, bytes through `MemoryImage::{write_external_byte, write_internal_byte}`,
//! then `CoreRuntime::step(1)` N times.  After every step it reports PC, S, F and the IMR cell
//! (`read_internal_byte_silent(0xFB)`); the comparison is done on the Python side (c05_pairs.py).
//!
//!
//! Round 4: the machine's memory map is part of the case (`map`): RAM overlays (`add_ram_overlay`), a memory
//! card (`load_memory_card`, zero-filled image of a supported size) and host-delegated ranges
//! (`MemoryImage::set_python_ranges` + `set_host_read`/`set_host_write` backed by a byte map that stores what
//! is written and returns what was stored, 0 otherwise - the way an embedding host attaches RAM it owns).
//! `reject` performs one operation the runtime rejects (or ignores) before the program runs; `chunks` runs
//! the program through bulk `step(n)` calls instead of `step(1)` (one trace entry per chunk).
//!
//! request : {"cases":[{"sio":bool,"regs":{"BA","I","X","Y","U","S","PC","F"},"mem":[[addr,byte],..],"steps":n,
//!                      "map":{"overlays":[[start,size,name],..],"card":size|null,"host":[[lo,hi],..]},
//!                      "reject":"card"|"snap"|"model"|"ovl0"|"step0"|null,"chunks":[n1,n2,..]|null}]}
//! response: {"ok":true,"results":[{"trace":[[pc,s,f,imr],..],"err":null|"...","host_rw":[reads,writes],
//!                                  "ovl_rw":[reads,writes],"rejected":bool|null}]}
use sc62015_core::llama::opcodes::RegName;
use sc62015_core::{CoreRuntime, DeviceModel};
use serde_json::{json, Value};
use std::collections::HashMap;
use std::io::{BufRead, Write};
use std::sync::{Arc, Mutex};

#[derive(Default)]
struct HostRam {
    bytes: HashMap<u32, u8>,
    reads: u64,
    writes: u64,
}

const IMR: u32 = 0xFB;

fn u(v: &Value, key: &str) -> Option<u32> {
    v.get(key).and_then(|x| x.as_u64()).map(|x| x as u32)
}

fn run_case(case: &Value) -> Value {
    let mut rt = CoreRuntime::new();
    if case.get("sio").and_then(|v| v.as_bool()).unwrap_or(false) {
        rt.enable_sio_stub();
    }
    let host = Arc::new(Mutex::new(HostRam::default()));
    if let Some(map) = case.get("map").filter(|m| m.is_object()) {
        if let Some(ovs) = map.get("overlays").and_then(|v| v.as_array()) {
            for ov in ovs {
                let start = ov.get(0).and_then(|x| x.as_u64()).unwrap_or(0) as u32;
                let size = ov.get(1).and_then(|x| x.as_u64()).unwrap_or(0) as usize;
                let name = ov.get(2).and_then(|x| x.as_str()).unwrap_or("ram");
                rt.add_ram_overlay(start, size, name);
            }
        }
        if let Some(size) = map.get("card").and_then(|v| v.as_u64()) {
            if let Err(e) = rt.load_memory_card(&vec![0u8; size as usize]) {
                return json!({"trace": [], "err": format!("load_memory_card: {e}")});
            }
        }
        if let Some(hs) = map.get("host").and_then(|v| v.as_array()) {
            let ranges: Vec<(u32, u32)> = hs
                .iter()
                .map(|r| {
                    (
                        r.get(0).and_then(|x| x.as_u64()).unwrap_or(0) as u32,
                        r.get(1).and_then(|x| x.as_u64()).unwrap_or(0) as u32,
                    )
                })
                .collect();
            if !ranges.is_empty() {
                rt.memory.set_python_ranges(ranges.clone());
                let rd = host.clone();
                let rr = ranges.clone();
                rt.set_host_read(move |addr| {
                    let a = addr & 0x00FF_FFFF;
                    if rr.iter().any(|(lo, hi)| a >= *lo && a <= *hi) {
                        let mut h = rd.lock().unwrap();
                        h.reads += 1;
                        Some(h.bytes.get(&a).copied().unwrap_or(0))
                    } else {
                        None
                    }
                });
                let wr = host.clone();
                let wrr = ranges;
                rt.set_host_write(move |addr, value| {
                    let a = addr & 0x00FF_FFFF;
                    if wrr.iter().any(|(lo, hi)| a >= *lo && a <= *hi) {
                        let mut h = wr.lock().unwrap();
                        h.writes += 1;
                        h.bytes.insert(a, value);
                    }
                });
            }
        }
    }
    if let Some(mem) = case.get("mem").and_then(|v| v.as_array()) {
        for pair in mem {
            let a = pair.get(0).and_then(|x| x.as_u64()).unwrap_or(0) as u32;
            let b = pair.get(1).and_then(|x| x.as_u64()).unwrap_or(0) as u8;
            if (0x10_0000..0x10_0100).contains(&a) {
                rt.memory.write_internal_byte(a & 0xFF, b);
            } else {
                rt.memory.write_external_byte(a & 0x000F_FFFF, b);
            }
        }
    }
    if let Some(regs) = case.get("regs") {
        for (name, reg) in [
            ("BA", RegName::BA),
            ("I", RegName::I),
            ("X", RegName::X),
            ("Y", RegName::Y),
            ("U", RegName::U),
            ("S", RegName::S),
            ("F", RegName::F),
        ] {
            if let Some(v) = u(regs, name) {
                rt.state.set_reg(reg, v);
            }
        }
        if let Some(v) = u(regs, "PC") {
            rt.state.set_pc(v);
        }
    }
    // one operation the runtime rejects (Err) or ignores, before the program runs
    let rejected: Value = match case.get("reject").and_then(|v| v.as_str()) {
        Some("card") => json!(rt.load_memory_card(&[0u8; 100]).is_err()),
        Some("snap") => json!(rt
            .load_snapshot(std::path::Path::new("/nonexistent/vh_c05/none.pcsnap"))
            .is_err()),
        Some("model") => json!(rt.set_device_model(DeviceModel::Iq7000).is_err()),
        Some("ovl0") => {
            let before = rt.overlays().len();
            rt.add_ram_overlay(0x30000, 0, "vh_c05_empty");
            json!(rt.overlays().len() == before)
        }
        Some("step0") => json!(rt.step(0).is_ok()),
        _ => Value::Null,
    };
    rt.clear_overlay_logs();
    let steps = case.get("steps").and_then(|v| v.as_u64()).unwrap_or(0);
    let plan: Vec<usize> = match case.get("chunks").and_then(|v| v.as_array()) {
        Some(c) => c.iter().map(|x| x.as_u64().unwrap_or(0) as usize).collect(),
        None => vec![1; steps as usize],
    };
    let mut trace: Vec<Value> = Vec::with_capacity(plan.len());
    let mut error = Value::Null;
    for (k, n) in plan.iter().enumerate() {
        let n = *n;
        let r = std::panic::catch_unwind(std::panic::AssertUnwindSafe(|| rt.step(n)));
        match r {
            Ok(Ok(())) => {}
            Ok(Err(e)) => {
                error = json!(format!("step {k}: {e}"));
                break;
            }
            Err(_) => {
                error = json!(format!("step {k}: panic"));
                break;
            }
        }
        trace.push(json!([
            rt.state.pc() & 0xFFFFF,
            rt.state.get_reg(RegName::S),
            rt.state.get_reg(RegName::F) & 0xFF,
            rt.memory.read_internal_byte_silent(IMR).unwrap_or(0),
        ]));
    }
    let (hr, hw) = {
        let h = host.lock().unwrap();
        (h.reads, h.writes)
    };
    json!({"trace": trace, "err": error, "host_rw": [hr, hw], "rejected": rejected,
           "ovl_rw": [rt.overlay_read_log().len(), rt.overlay_write_log().len()]})
}

fn main() {
    std::panic::set_hook(Box::new(|_| {}));
    let stdin = std::io::stdin();
    let stdout = std::io::stdout();
    let mut out = std::io::BufWriter::new(stdout.lock());
    for line in stdin.lock().lines() {
        let line = match line {
            Ok(l) => l,
            Err(_) => break,
        };
        if line.trim().is_empty() {
            continue;
        }
        let resp = match serde_json::from_str::<Value>(&line) {
            Ok(req) => {
                let r = std::panic::catch_unwind(std::panic::AssertUnwindSafe(|| {
                    let results: Vec<Value> = req
                        .get("cases")
                        .and_then(|v| v.as_array())
                        .map(|a| a.iter().map(run_case).collect())
                        .unwrap_or_default();
                    json!({"ok": true, "results": results})
                }));
                r.unwrap_or_else(|_| json!({"ok": false, "error": "panic in vh_c05"}))
            }
            Err(e) => json!({"ok": false, "error": format!("bad json: {e}")}),
        };
        let _ = serde_json::to_writer(&mut out, &resp);
        let _ = out.write_all(b"\n");
        let _ = out.flush();
    }
}
