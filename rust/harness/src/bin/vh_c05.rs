//! `vh_c05` -- C05's own JSON-lines adapter over `sc62015_core::CoreRuntime` (a separate binary of the
//! harness package so that the shared dispatcher `main.rs` stays untouched; cargo discovers `src/bin/*.rs`).
//!
//! It holds no semantics: a case is a machine built by `CoreRuntime::new()` (timers stay disabled, no ROM,
//! flat zero-filled external memory), optionally `enable_sio_stub()`, registers through
//! `LlamaState::set_reg/set_pc`, bytes through `MemoryImage::{write_external_byte, write_internal_byte}`,
//! then `CoreRuntime::step(1)` N times.  After every step it reports PC, S, F and the IMR cell
//! (`read_internal_byte_silent(0xFB)`); the comparison is done on the Python side (c05_pairs.py).
//!
//! request : {"cases":[{"sio":bool,"regs":{"BA","I","X","Y","U","S","PC","F"},"mem":[[addr,byte],..],"steps":n}]}
//! response: {"ok":true,"results":[{"trace":[[pc,s,f,imr],..],"err":null|"..."}]}
use sc62015_core::llama::opcodes::RegName;
use sc62015_core::CoreRuntime;
use serde_json::{json, Value};
use std::io::{BufRead, Write};

const IMR: u32 = 0xFB;

fn u(v: &Value, key: &str) -> Option<u32> {
    v.get(key).and_then(|x| x.as_u64()).map(|x| x as u32)
}

fn run_case(case: &Value) -> Value {
    let mut rt = CoreRuntime::new();
    if case.get("sio").and_then(|v| v.as_bool()).unwrap_or(false) {
        rt.enable_sio_stub();
    }
    if let Some(mem) = case.get("mem").and_then(|v| v.as_array()) {
        for pair in mem {
            let a = pair.get(0).and_then(|x| x.as_u64()).unwrap_or(0) as u32;
            let b = pair.get(1).and_then(|x| x.as_u64()).unwrap_or(0) as u8;
            if (0x10_0000..0x10_0100).contains(&a) {
                rt.memory.write_internal_byte(a & 0xFF, b);
            } else {
                rt.memory.write_external_byte(a & 0x000F_FFFF, b);
            }
        }
    }
    if let Some(regs) = case.get("regs") {
        for (name, reg) in [
            ("BA", RegName::BA),
            ("I", RegName::I),
            ("X", RegName::X),
            ("Y", RegName::Y),
            ("U", RegName::U),
            ("S", RegName::S),
            ("F", RegName::F),
        ] {
            if let Some(v) = u(regs, name) {
                rt.state.set_reg(reg, v);
            }
        }
        if let Some(v) = u(regs, "PC") {
            rt.state.set_pc(v);
        }
    }
    let steps = case.get("steps").and_then(|v| v.as_u64()).unwrap_or(0);
    let mut trace: Vec<Value> = Vec::with_capacity(steps as usize);
    let mut error = Value::Null;
    for k in 0..steps {
        let r = std::panic::catch_unwind(std::panic::AssertUnwindSafe(|| rt.step(1)));
        match r {
            Ok(Ok(())) => {}
            Ok(Err(e)) => {
                error = json!(format!("step {k}: {e}"));
                break;
            }
            Err(_) => {
                error = json!(format!("step {k}: panic"));
                break;
            }
        }
        trace.push(json!([
            rt.state.pc() & 0xFFFFF,
            rt.state.get_reg(RegName::S),
            rt.state.get_reg(RegName::F) & 0xFF,
            rt.memory.read_internal_byte_silent(IMR).unwrap_or(0),
        ]));
    }
    json!({"trace": trace, "err": error})
}

fn main() {
    std::panic::set_hook(Box::new(|_| {}));
    let stdin = std::io::stdin();
    let stdout = std::io::stdout();
    let mut out = std::io::BufWriter::new(stdout.lock());
    for line in stdin.lock().lines() {
        let line = match line {
            Ok(l) => l,
            Err(_) => break,
        };
        if line.trim().is_empty() {
            continue;
        }
        let resp = match serde_json::from_str::<Value>(&line) {
            Ok(req) => {
                let r = std::panic::catch_unwind(std::panic::AssertUnwindSafe(|| {
                    let results: Vec<Value> = req
                        .get("cases")
                        .and_then(|v| v.as_array())
                        .map(|a| a.iter().map(run_case).collect())
                        .unwrap_or_default();
                    json!({"ok": true, "results": results})
                }));
                r.unwrap_or_else(|_| json!({"ok": false, "error": "panic in vh_c05"}))
            }
            Err(e) => json!({"ok": false, "error": format!("bad json: {e}")}),
        };
        let _ = serde_json::to_writer(&mut out, &resp);
        let _ = out.write_all(b"\n");
        let _ = out.flush();
    }
}
