//! cpu -- drive `LlamaExecutor::execute` on a `LlamaState` over a hash-filled sparse bus.
//!
//! The bus is the only semantics the harness owns: memory content is
//! `over.get(canon(a))` or `mix32(seed, canon(a)) & 0xFF`, where canon() reduces an address to the
//! documented SC62015 address space (24-bit wrap; 0x100000..0x1000FF internal; everything else external
//! modulo 1 MiB).  The Python side (vp_harness/pycore.py) implements the identical function.
use crate::util::{err, get_bool, get_str, get_u32, get_u64, mix32};
use sc62015_core::llama::eval::{LlamaBus, LlamaExecutor};
use sc62015_core::llama::opcodes::RegName;
use sc62015_core::llama::state::{LlamaState, PowerState};
use serde_json::{json, Map, Value};
use std::collections::HashMap;

pub fn canon(a: u32) -> u32 {
    let a = a & 0x00FF_FFFF;
    if (0x10_0000..0x10_0100).contains(&a) {
        a
    } else {
        a & 0x000F_FFFF
    }
}

pub struct HashBus {
    pub seed: u32,
    pub over: HashMap<u32, u8>,
    pub writes: Vec<(u32, u8)>,
    pub reads: Vec<u32>,
    pub log_reads: bool,
    pub waits: Vec<u32>,
    pub noncanon: bool,
}

pub fn is_canonical(a: u32) -> bool {
    a <= 0x000F_FFFF || (0x10_0000..0x10_0100).contains(&a)
}

impl HashBus {
    pub fn new(seed: u32) -> Self {
        HashBus {
            seed,
            over: HashMap::new(),
            writes: Vec::new(),
            reads: Vec::new(),
            log_reads: false,
            waits: Vec::new(),
            noncanon: false,
        }
    }
    pub fn peek(&self, a: u32) -> u8 {
        let c = canon(a);
        match self.over.get(&c) {
            Some(v) => *v,
            None => (mix32(self.seed, &[c]) & 0xFF) as u8,
        }
    }
}

impl LlamaBus for HashBus {
    fn load(&mut self, addr: u32, bits: u8) -> u32 {
        let bytes = ((bits as u32) + 7) / 8;
        let mut v: u32 = 0;
        for i in 0..bytes {
            let a = addr.wrapping_add(i);
            if !is_canonical(a) {
                self.noncanon = true;
            }
            if self.log_reads {
                self.reads.push(canon(a));
            }
            v |= (self.peek(a) as u32) << (8 * i);
        }
        v
    }
    fn store(&mut self, addr: u32, bits: u8, value: u32) {
        let bytes = ((bits as u32) + 7) / 8;
        for i in 0..bytes {
            if !is_canonical(addr.wrapping_add(i)) {
                self.noncanon = true;
            }
            let c = canon(addr.wrapping_add(i));
            let b = ((value >> (8 * i)) & 0xFF) as u8;
            self.over.insert(c, b);
            self.writes.push((c, b));
        }
    }
    fn wait_cycles(&mut self, cycles: u32) {
        self.waits.push(cycles);
    }
}

pub struct CpuSession {
    pub state: LlamaState,
    pub exec: LlamaExecutor,
    pub bus: HashBus,
}

#[derive(Default)]
pub struct CpuSessions {
    map: HashMap<String, CpuSession>,
}

pub fn reg_by_name(name: &str) -> Option<RegName> {
    Some(match name {
        "A" => RegName::A,
        "B" => RegName::B,
        "BA" => RegName::BA,
        "IL" => RegName::IL,
        "IH" => RegName::IH,
        "I" => RegName::I,
        "X" => RegName::X,
        "Y" => RegName::Y,
        "U" => RegName::U,
        "S" => RegName::S,
        "PC" => RegName::PC,
        "F" => RegName::F,
        "FC" => RegName::FC,
        "FZ" => RegName::FZ,
        "IMR" => RegName::IMR,
        _ => {
            if let Some(rest) = name.strip_prefix("TEMP") {
                if let Ok(i) = rest.parse::<u8>() {
                    return Some(RegName::Temp(i));
                }
            }
            return None;
        }
    })
}

const ARCH_REGS: [&str; 8] = ["BA", "I", "X", "Y", "U", "S", "PC", "F"];

pub fn regs_json(state: &LlamaState, temps: bool) -> Value {
    let mut m = Map::new();
    for n in ARCH_REGS.iter() {
        m.insert(n.to_string(), json!(state.get_reg(reg_by_name(n).unwrap())));
    }
    m.insert("IMR".to_string(), json!(state.get_reg(RegName::IMR)));
    if temps {
        for i in 0..14u8 {
            m.insert(format!("TEMP{i}"), json!(state.get_reg(RegName::Temp(i))));
        }
    }
    Value::Object(m)
}

pub fn power_str(p: PowerState) -> &'static str {
    match p {
        PowerState::Running => "running",
        PowerState::Halted => "halted",
        PowerState::Off => "off",
    }
}

fn apply_setup(sess: &mut CpuSession, req: &Value) {
    if let Some(regs) = req.get("regs").and_then(|v| v.as_object()) {
        // Deterministic order: full registers first, then sub-registers/flags.
        let order = [
            "BA", "I", "X", "Y", "U", "S", "PC", "F", "A", "B", "IL", "IH", "FC", "FZ", "IMR",
        ];
        for n in order.iter() {
            if let Some(v) = regs.get(*n).and_then(|x| x.as_u64()) {
                sess.state.set_reg(reg_by_name(n).unwrap(), v as u32);
            }
        }
        for (k, v) in regs.iter() {
            if k.starts_with("TEMP") {
                if let (Some(r), Some(x)) = (reg_by_name(k), v.as_u64()) {
                    sess.state.set_reg(r, x as u32);
                }
            }
        }
    }
    match get_str(req, "power", "") {
        "running" => sess.state.set_power_state(PowerState::Running),
        "halted" => sess.state.set_power_state(PowerState::Halted),
        "off" => sess.state.set_power_state(PowerState::Off),
        _ => {}
    }
    if let Some(j) = req.get("junk") {
        // Hidden bookkeeping that must never influence architectural results (C07).
        if let Some(pages) = j.get("call_pages").and_then(|v| v.as_array()) {
            for p in pages {
                sess.state.push_call_page(p.as_u64().unwrap_or(0) as u32);
            }
        }
        if let Some(frames) = j.get("call_frames").and_then(|v| v.as_array()) {
            for f in frames {
                let dest = f.get(0).and_then(|x| x.as_u64()).unwrap_or(0) as u32;
                let bits = f.get(1).and_then(|x| x.as_u64()).unwrap_or(0) as u8;
                sess.state.push_call_frame(dest, bits);
            }
        }
        if let Some(d) = j.get("call_depth").and_then(|v| v.as_u64()) {
            sess.state.set_call_depth(d as u32);
            sess.state.set_call_sub_level(d as u32);
        }
    }
    if req.get("seed").is_some() {
        sess.bus.seed = get_u32(req, "seed", 0);
    }
    if get_bool(req, "clear_mem", false) {
        sess.bus.over.clear();
    }
    if let Some(mem) = req.get("mem").and_then(|v| v.as_array()) {
        for pair in mem {
            let a = pair.get(0).and_then(|x| x.as_u64()).unwrap_or(0) as u32;
            let v = pair.get(1).and_then(|x| x.as_u64()).unwrap_or(0) as u8;
            sess.bus.over.insert(canon(a), v);
        }
    }
}

fn run_one(sessions: &mut CpuSessions, req: &Value) -> Value {
    let id = get_str(req, "sess", "default").to_string();
    let keep = get_bool(req, "keep", false);
    if !keep || !sessions.map.contains_key(&id) {
        sessions.map.insert(
            id.clone(),
            CpuSession {
                state: LlamaState::new(),
                exec: LlamaExecutor::new(),
                bus: HashBus::new(get_u32(req, "seed", 0)),
            },
        );
    }
    let sess = sessions.map.get_mut(&id).unwrap();
    apply_setup(sess, req);
    let steps = get_u64(req, "steps", 1);
    let want_temps = get_bool(req, "want_temps", false);
    let want_reads = get_bool(req, "want_reads", false);
    let stop_on_halt = get_bool(req, "stop_on_halt", true);
    sess.bus.log_reads = want_reads;
    let mut out = Vec::new();
    for _ in 0..steps {
        if stop_on_halt && sess.state.is_halted() {
            break;
        }
        sess.bus.writes.clear();
        sess.bus.reads.clear();
        sess.bus.waits.clear();
        sess.bus.noncanon = false;
        let pc = sess.state.pc();
        let opcode = (sess.bus.peek(pc)) as u8;
        let r = std::panic::catch_unwind(std::panic::AssertUnwindSafe(|| {
            sess.exec.execute(opcode, &mut sess.state, &mut sess.bus)
        }));
        let mut step = Map::new();
        step.insert("pc".into(), json!(pc));
        let mut failed = false;
        match r {
            Ok(Ok(len)) => {
                step.insert("len".into(), json!(len));
            }
            Ok(Err(e)) => {
                step.insert("err".into(), json!(e));
                failed = true;
            }
            Err(e) => {
                let msg = if let Some(s) = e.downcast_ref::<&str>() {
                    s.to_string()
                } else if let Some(s) = e.downcast_ref::<String>() {
                    s.clone()
                } else {
                    "panic".to_string()
                };
                step.insert("err".into(), json!(format!("panic: {msg}")));
                failed = true;
            }
        }
        step.insert("regs".into(), regs_json(&sess.state, want_temps));
        step.insert("power".into(), json!(power_str(sess.state.power_state())));
        step.insert(
            "writes".into(),
            Value::Array(sess.bus.writes.iter().map(|(a, v)| json!([a, v])).collect()),
        );
        if want_reads {
            step.insert(
                "reads".into(),
                Value::Array(sess.bus.reads.iter().map(|a| json!(a)).collect()),
            );
        }
        if sess.bus.noncanon {
            step.insert("noncanon".into(), json!(true));
        }
        if !sess.bus.waits.is_empty() {
            step.insert("waits".into(), json!(sess.bus.waits));
        }
        out.push(Value::Object(step));
        if failed {
            break;
        }
    }
    let mut resp = Map::new();
    resp.insert("ok".into(), json!(true));
    resp.insert("steps".into(), Value::Array(out));
    if let Some(peeks) = req.get("peek").and_then(|v| v.as_array()) {
        let vals: Vec<Value> = peeks
            .iter()
            .map(|a| json!(sess.bus.peek(a.as_u64().unwrap_or(0) as u32)))
            .collect();
        resp.insert("peek".into(), Value::Array(vals));
    }
    if get_bool(req, "want_final", false) {
        resp.insert("final_regs".into(), regs_json(&sess.state, true));
        resp.insert("final_power".into(), json!(power_str(sess.state.power_state())));
    }
    Value::Object(resp)
}

pub fn handle(verb: &str, req: &Value, sessions: &mut CpuSessions) -> Value {
    match verb {
        "run" => run_one(sessions, req),
        "batch" => {
            let cases = match req.get("cases").and_then(|v| v.as_array()) {
                Some(c) => c,
                None => return err("cpu.batch needs cases"),
            };
            let results: Vec<Value> = cases.iter().map(|c| run_one(sessions, c)).collect();
            json!({"ok": true, "results": results})
        }
        "drop" => {
            let id = get_str(req, "sess", "default");
            sessions.map.remove(id);
            json!({"ok": true})
        }
        "fill" => {
            // self-test of the memory-fill hash: values at the given addresses
            let seed = get_u32(req, "seed", 0);
            let bus = HashBus::new(seed);
            let addrs = req.get("addrs").and_then(|v| v.as_array()).cloned().unwrap_or_default();
            let vals: Vec<Value> = addrs
                .iter()
                .map(|a| json!(bus.peek(a.as_u64().unwrap_or(0) as u32)))
                .collect();
            json!({"ok": true, "values": vals})
        }
        _ => err(format!("unknown cpu verb {verb}")),
    }
}
