//! c15 -- thin adapter over `sc62015_core::lcd::LcdController` (public API only).
//!
//! `c15.run` : {"histories": [{"ops": [...], "snap": bool}, ...]}
//!   Every history starts from a fresh `LcdController::new()`.  Ops (JSON arrays):
//!     ["w", addr, value]   LcdController::write
//!     ["r", addr]          LcdController::read           -> "r": null | int
//!     ["W", addr, v0, step, n]  n x LcdController::write(addr, (v0 + i*step) & 0xFF), i = 0..n-1  (bulk verb: long
//!                          runs such as 65536 un-polled writes are one request element, one snapshot at the end)
//!     ["R", addr, n]       n x LcdController::read(addr) -> "r": the last result, "rs": [number of Some results,
//!                          FNV-1a/32 over the results (None hashed as 0x100)] -- an encoding of what was returned
//!     ["S", what]          bystander observation (no LCD access): "snapshot" export_snapshot(), "display" display_buffer(),
//!                          "save" CoreRuntime::save_snapshot to a temp file on the machine path (export_snapshot elsewhere)
//!     ["L", meta, "hex"]   load_snapshot(meta, payload) on the live controller -> "l": "accepted" | "rejected"
//!     ["b"]                remember display_buffer() as the base; -> "b": 32 strings of 240 '0'/'1'
//!     ["d"]                diff display_buffer() against the base -> "d": [row, col, value, ...]
//!     ["v"]                export_snapshot() VRAM payload -> "x": hex string
//!     ["cb"]               begin_display_write_capture
//!     ["ct"]               take_display_write_capture    -> "c": [[page, col, value], ...]
//!   With "snap": true every "w"/"r" result additionally carries the export_snapshot() view:
//!     "s": [on, start_line, page, y_address] x 2 chips, "v": [index, value, ...] = bytes of the VRAM
//!     payload that differ from the payload after the previous op (all-zero before the first op).
//!   "via": "hal" drives the same ops through `create_lcd(LcdKind::Hd61202)` and the `LcdHal` trait object (the
//!   way the runtime owns its LCD) instead of the inherent methods of a `LcdController` value.
//!   "via": "machine" drives them through a whole `CoreRuntime` (CPU -> RuntimeBus -> LCD): every write is the
//!   instruction `MV [abs20],A` (A8 lo mid hi, A preset to the value through the register API), every read is
//!   `MV A,[abs20]` (88 lo mid hi) and the result is register A afterwards -- the two instructions lib.rs' own tests
//!   `lcd_mapped_write_counts_as_memory_write` / `lcd_mapped_read_counts_as_memory_read` use.  One `step(1)` per
//!   access; instructions are laid down at rolling addresses of the RAM at 0xB8000.  "backing": [[addr, "hex"], ...]
//!   is written into the flat memory image first (what a memory image / snapshot leaves underneath the LCD ports).
//!   A machine read always yields a byte ("r" is never null): the caller decides which reads the protocol constrains.
//!   The LCD is observed through `rt.lcd` (export_snapshot / display_buffer), exactly as on the other paths.
//!   The harness holds no LCD semantics: diffs are an encoding of what the crate returned.
use sc62015_core::lcd::{
    create_lcd, LcdController, LcdDisplayWrite, LcdHal, LcdKind, LCD_DISPLAY_COLS, LCD_DISPLAY_ROWS,
};
use sc62015_core::llama::opcodes::RegName;
use sc62015_core::{CoreRuntime, TimerContext};
use serde_json::{json, Value};

#[derive(Default)]
pub struct State {}

type Buf = [[u8; LCD_DISPLAY_COLS]; LCD_DISPLAY_ROWS];

/// The two public ways of owning the controller: a `LcdController` value or a `Box<dyn LcdHal>`.
trait Dev {
    fn write(&mut self, address: u32, value: u8);
    fn read(&mut self, address: u32) -> Option<u8>;
    fn export_snapshot(&self) -> (Value, Vec<u8>);
    fn display_buffer(&self) -> Buf;
    fn begin_display_write_capture(&mut self);
    fn take_display_write_capture(&mut self) -> Vec<LcdDisplayWrite>;
    fn load_snapshot(&mut self, metadata: &Value, payload: &[u8]) -> Result<(), String>;
    /// Whole-machine snapshot save where the device is a machine (None: not a machine).
    fn save_machine(&mut self) -> Option<Result<(), String>> {
        None
    }
}

impl Dev for LcdController {
    fn load_snapshot(&mut self, metadata: &Value, payload: &[u8]) -> Result<(), String> {
        LcdController::load_snapshot(self, metadata, payload)
    }
    fn write(&mut self, address: u32, value: u8) {
        LcdController::write(self, address, value)
    }
    fn read(&mut self, address: u32) -> Option<u8> {
        LcdController::read(self, address)
    }
    fn export_snapshot(&self) -> (Value, Vec<u8>) {
        LcdController::export_snapshot(self)
    }
    fn display_buffer(&self) -> Buf {
        LcdController::display_buffer(self)
    }
    fn begin_display_write_capture(&mut self) {
        LcdController::begin_display_write_capture(self)
    }
    fn take_display_write_capture(&mut self) -> Vec<LcdDisplayWrite> {
        LcdController::take_display_write_capture(self)
    }
}

impl Dev for Box<dyn LcdHal> {
    fn load_snapshot(&mut self, metadata: &Value, payload: &[u8]) -> Result<(), String> {
        self.as_mut().load_snapshot(metadata, payload)
    }
    fn write(&mut self, address: u32, value: u8) {
        self.as_mut().write(address, value)
    }
    fn read(&mut self, address: u32) -> Option<u8> {
        self.as_mut().read(address)
    }
    fn export_snapshot(&self) -> (Value, Vec<u8>) {
        self.as_ref().export_snapshot()
    }
    fn display_buffer(&self) -> Buf {
        self.as_ref().display_buffer()
    }
    fn begin_display_write_capture(&mut self) {
        self.as_mut().begin_display_write_capture()
    }
    fn take_display_write_capture(&mut self) -> Vec<LcdDisplayWrite> {
        self.as_mut().take_display_write_capture()
    }
}

/// The whole machine: accesses are CPU instructions executed by `CoreRuntime::step`.
struct MachineDev {
    rt: CoreRuntime,
    n: u32,
}

const PROG_BASE: u32 = 0xB8000;
const PROG_SLOTS: u32 = 0x1800; // 4-byte slots, 24 KiB of the internal RAM

fn unhex(s: &str) -> Vec<u8> {
    let b = s.as_bytes();
    let nib = |c: u8| -> u8 {
        match c {
            b'0'..=b'9' => c - b'0',
            b'a'..=b'f' => c - b'a' + 10,
            b'A'..=b'F' => c - b'A' + 10,
            _ => 0,
        }
    };
    let mut out = Vec::with_capacity(b.len() / 2);
    let mut i = 0;
    while i + 1 < b.len() {
        out.push((nib(b[i]) << 4) | nib(b[i + 1]));
        i += 2;
    }
    out
}

impl MachineDev {
    fn new(h: &Value) -> Self {
        let mut rt = CoreRuntime::new();
        // Replace the timer in place (CoreRuntime's IMR/ISR hook holds a raw pointer into this Box): no timer IRQs.
        *rt.timer = TimerContext::new(false, 0, 0);
        if let Some(segs) = h.get("backing").and_then(|v| v.as_array()) {
            for seg in segs {
                let addr = seg.get(0).and_then(|v| v.as_u64()).unwrap_or(0) as usize;
                let data = unhex(seg.get(1).and_then(|v| v.as_str()).unwrap_or(""));
                rt.memory.write_external_slice(addr, &data);
            }
        }
        MachineDev { rt, n: 0 }
    }

    fn exec(&mut self, opcode: u8, address: u32) {
        let slot = PROG_BASE + 4 * (self.n % PROG_SLOTS);
        self.n = self.n.wrapping_add(1);
        let code = [
            opcode,
            (address & 0xFF) as u8,
            ((address >> 8) & 0xFF) as u8,
            ((address >> 16) & 0x0F) as u8,
        ];
        self.rt.memory.write_external_slice(slot as usize, &code);
        self.rt.state.set_pc(slot);
        if let Err(e) = self.rt.step(1) {
            panic!("CoreRuntime::step failed: {e}");
        }
    }

    fn lcd(&self) -> &dyn LcdHal {
        self.rt.lcd.as_deref().expect("CoreRuntime without an LCD")
    }

    fn lcd_mut(&mut self) -> &mut dyn LcdHal {
        self.rt.lcd.as_deref_mut().expect("CoreRuntime without an LCD")
    }
}

impl Dev for MachineDev {
    fn load_snapshot(&mut self, metadata: &Value, payload: &[u8]) -> Result<(), String> {
        self.lcd_mut().load_snapshot(metadata, payload)
    }
    fn save_machine(&mut self) -> Option<Result<(), String>> {
        static SEQ: std::sync::atomic::AtomicU32 = std::sync::atomic::AtomicU32::new(0);
        let k = SEQ.fetch_add(1, std::sync::atomic::Ordering::Relaxed);
        let path = std::env::temp_dir().join(format!("vh-c15-{}-{}.pcsnap", std::process::id(), k));
        let r = self.rt.save_snapshot(&path).map_err(|e| e.to_string());
        let _ = std::fs::remove_file(&path);
        Some(r)
    }
    fn write(&mut self, address: u32, value: u8) {
        self.rt.state.set_reg(RegName::A, value as u32);
        self.exec(0xA8, address); // MV [abs20],A
    }
    fn read(&mut self, address: u32) -> Option<u8> {
        self.exec(0x88, address); // MV A,[abs20]
        Some((self.rt.state.get_reg(RegName::A) & 0xFF) as u8)
    }
    fn export_snapshot(&self) -> (Value, Vec<u8>) {
        self.lcd().export_snapshot()
    }
    fn display_buffer(&self) -> Buf {
        self.lcd().display_buffer()
    }
    fn begin_display_write_capture(&mut self) {
        self.lcd_mut().begin_display_write_capture()
    }
    fn take_display_write_capture(&mut self) -> Vec<LcdDisplayWrite> {
        self.lcd_mut().take_display_write_capture()
    }
}

fn snap<D: Dev>(lcd: &D, prev: &mut Vec<u8>) -> (Value, Value) {
    let (meta, payload) = lcd.export_snapshot();
    let mut regs: Vec<Value> = Vec::with_capacity(8);
    if let Some(chips) = meta.get("chips").and_then(|v| v.as_array()) {
        for c in chips {
            regs.push(c.get("on").cloned().unwrap_or(Value::Null));
            regs.push(c.get("start_line").cloned().unwrap_or(Value::Null));
            regs.push(c.get("page").cloned().unwrap_or(Value::Null));
            regs.push(c.get("y_address").cloned().unwrap_or(Value::Null));
        }
    }
    let mut delta: Vec<u32> = Vec::new();
    if prev.len() != payload.len() {
        // length change (never expected): ship everything, marked by a leading length entry
        delta.push(0xFFFF_FFFF);
        delta.push(payload.len() as u32);
        for (i, b) in payload.iter().enumerate() {
            delta.push(i as u32);
            delta.push(*b as u32);
        }
    } else {
        for (i, b) in payload.iter().enumerate() {
            if prev[i] != *b {
                delta.push(i as u32);
                delta.push(*b as u32);
            }
        }
    }
    *prev = payload;
    (Value::Array(regs), json!(delta))
}

fn run_history(h: &Value, out: &mut Vec<Value>) {
    let via = h.get("via").and_then(|v| v.as_str());
    if via == Some("hal") {
        let mut lcd: Box<dyn LcdHal> = create_lcd(LcdKind::Hd61202);
        run_ops(&mut lcd, h, out)
    } else if via == Some("machine") {
        let mut lcd = MachineDev::new(h);
        run_ops(&mut lcd, h, out)
    } else {
        let mut lcd = LcdController::new();
        run_ops(&mut lcd, h, out)
    }
}

fn run_ops<D: Dev>(lcd: &mut D, h: &Value, out: &mut Vec<Value>) {
    let want_snap = h.get("snap").and_then(|v| v.as_bool()).unwrap_or(false);
    let mut prev: Vec<u8> = vec![0u8; 2 * 8 * 64];
    let mut base: Option<Buf> = None;
    let empty = Vec::new();
    let ops = h.get("ops").and_then(|v| v.as_array()).unwrap_or(&empty);
    for op in ops {
        let kind = op.get(0).and_then(|v| v.as_str()).unwrap_or("");
        match kind {
            "w" => {
                let addr = op.get(1).and_then(|v| v.as_u64()).unwrap_or(0) as u32;
                let val = op.get(2).and_then(|v| v.as_u64()).unwrap_or(0) as u8;
                lcd.write(addr, val);
                if want_snap {
                    let (s, v) = snap(&*lcd, &mut prev);
                    out.push(json!({"s": s, "v": v}));
                } else {
                    out.push(json!({}));
                }
            }
            "r" => {
                let addr = op.get(1).and_then(|v| v.as_u64()).unwrap_or(0) as u32;
                let r = lcd.read(addr);
                if want_snap {
                    let (s, v) = snap(&*lcd, &mut prev);
                    out.push(json!({"r": r, "s": s, "v": v}));
                } else {
                    out.push(json!({"r": r}));
                }
            }
            "W" => {
                let addr = op.get(1).and_then(|v| v.as_u64()).unwrap_or(0) as u32;
                let v0 = op.get(2).and_then(|v| v.as_u64()).unwrap_or(0);
                let step = op.get(3).and_then(|v| v.as_u64()).unwrap_or(0);
                let n = op.get(4).and_then(|v| v.as_u64()).unwrap_or(0);
                for i in 0..n {
                    lcd.write(addr, (v0.wrapping_add(i.wrapping_mul(step)) & 0xFF) as u8);
                }
                if want_snap {
                    let (s, v) = snap(&*lcd, &mut prev);
                    out.push(json!({"s": s, "v": v}));
                } else {
                    out.push(json!({}));
                }
            }
            "R" => {
                let addr = op.get(1).and_then(|v| v.as_u64()).unwrap_or(0) as u32;
                let n = op.get(2).and_then(|v| v.as_u64()).unwrap_or(0);
                let mut last: Option<u8> = None;
                let mut some: u64 = 0;
                let mut fnv: u32 = 0x811C_9DC5;
                for _ in 0..n {
                    last = lcd.read(addr);
                    let code: u32 = match last {
                        Some(b) => {
                            some += 1;
                            b as u32
                        }
                        None => 0x100,
                    };
                    fnv = (fnv ^ (code & 0xFF)).wrapping_mul(0x0100_0193);
                    fnv = (fnv ^ (code >> 8)).wrapping_mul(0x0100_0193);
                }
                if want_snap {
                    let (s, v) = snap(&*lcd, &mut prev);
                    out.push(json!({"r": last, "rs": [some, fnv], "s": s, "v": v}));
                } else {
                    out.push(json!({"r": last, "rs": [some, fnv]}));
                }
            }
            "S" => {
                // bystander observation: not an LCD-window access.  op[1] names which public observer is called.
                let what = op.get(1).and_then(|v| v.as_str()).unwrap_or("");
                let mut done = "done";
                match what {
                    "display" => {
                        let _ = lcd.display_buffer();
                    }
                    "save" => match lcd.save_machine() {
                        Some(Ok(())) => {}
                        Some(Err(_)) => done = "save-failed",
                        None => {
                            let _ = lcd.export_snapshot();
                        }
                    },
                    _ => {
                        let _ = lcd.export_snapshot();
                    }
                }
                if want_snap {
                    let (s, v) = snap(&*lcd, &mut prev);
                    out.push(json!({"l": done, "s": s, "v": v}));
                } else {
                    out.push(json!({"l": done}));
                }
            }
            "L" => {
                // snapshot restore offered to the live controller: op[1] = metadata, op[2] = payload (hex).
                let meta = op.get(1).cloned().unwrap_or(Value::Null);
                let payload = unhex(op.get(2).and_then(|v| v.as_str()).unwrap_or(""));
                let res = match lcd.load_snapshot(&meta, &payload) {
                    Ok(()) => "accepted",
                    Err(_) => "rejected",
                };
                if want_snap {
                    let (s, v) = snap(&*lcd, &mut prev);
                    out.push(json!({"l": res, "s": s, "v": v}));
                } else {
                    out.push(json!({"l": res}));
                }
            }
            "b" => {
                let buf = lcd.display_buffer();
                let rows: Vec<String> = buf
                    .iter()
                    .map(|row| row.iter().map(|p| if *p != 0 { '1' } else { '0' }).collect())
                    .collect();
                base = Some(buf);
                out.push(json!({"b": rows}));
            }
            "d" => {
                let buf = lcd.display_buffer();
                let mut diff: Vec<u32> = Vec::new();
                match &base {
                    Some(b) => {
                        for r in 0..LCD_DISPLAY_ROWS {
                            for c in 0..LCD_DISPLAY_COLS {
                                if b[r][c] != buf[r][c] {
                                    diff.push(r as u32);
                                    diff.push(c as u32);
                                    diff.push(buf[r][c] as u32);
                                }
                            }
                        }
                        out.push(json!({"d": diff}));
                    }
                    None => out.push(json!({"error": "no base buffer"})),
                }
            }
            "v" => {
                let (_meta, payload) = lcd.export_snapshot();
                let mut hex = String::with_capacity(payload.len() * 2);
                for b in payload.iter() {
                    hex.push_str(&format!("{:02x}", b));
                }
                out.push(json!({"x": hex}));
            }
            "cb" => {
                lcd.begin_display_write_capture();
                out.push(json!({}));
            }
            "ct" => {
                let evs = lcd.take_display_write_capture();
                let list: Vec<Value> = evs
                    .iter()
                    .map(|e| json!([e.page, e.col, e.value]))
                    .collect();
                out.push(json!({"c": list}));
            }
            _ => out.push(json!({"error": format!("unknown op {kind}")})),
        }
    }
}

pub fn handle(verb: &str, req: &Value, _st: &mut State) -> Value {
    match verb {
        "run" => {
            let empty = Vec::new();
            let hs = req.get("histories").and_then(|v| v.as_array()).unwrap_or(&empty);
            let mut results: Vec<Value> = Vec::with_capacity(hs.len());
            for h in hs {
                // steps completed before a panic inside the crate are kept (the panic is the next step's result)
                let mut steps: Vec<Value> = Vec::new();
                let r = std::panic::catch_unwind(std::panic::AssertUnwindSafe(|| {
                    run_history(h, &mut steps)
                }));
                match r {
                    Ok(()) => results.push(json!({"steps": steps})),
                    Err(e) => {
                        let msg = if let Some(s) = e.downcast_ref::<&str>() {
                            s.to_string()
                        } else if let Some(s) = e.downcast_ref::<String>() {
                            s.clone()
                        } else {
                            "panic".to_string()
                        };
                        results.push(json!({"steps": steps, "panic": msg}));
                    }
                }
            }
            json!({"ok": true, "results": results})
        }
        _ => json!({"ok": false, "error": format!("c15.{verb} not implemented")}),
    }
}
