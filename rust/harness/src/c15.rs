//! c15 -- thin adapter over `sc62015_core::lcd::LcdController` (public API only).
//!
//! `c15.run` : {"histories": [{"ops": [...], "snap": bool}, ...]}
//!   Every history starts from a fresh `LcdController::new()`.  Ops (JSON arrays):
//!     ["w", addr, value]   LcdController::write
//!     ["r", addr]          LcdController::read           -> "r": null | int
//!     ["b"]                remember display_buffer() as the base; -> "b": 32 strings of 240 '0'/'1'
//!     ["d"]                diff display_buffer() against the base -> "d": [row, col, value, ...]
//!     ["v"]                export_snapshot() VRAM payload -> "x": hex string
//!     ["cb"]               begin_display_write_capture
//!     ["ct"]               take_display_write_capture    -> "c": [[page, col, value], ...]
//!   With "snap": true every "w"/"r" result additionally carries the export_snapshot() view:
//!     "s": [on, start_line, page, y_address] x 2 chips, "v": [index, value, ...] = bytes of the VRAM
//!     payload that differ from the payload after the previous op (all-zero before the first op).
//!   The harness holds no LCD semantics: diffs are an encoding of what the crate returned.
use sc62015_core::lcd::{LcdController, LCD_DISPLAY_COLS, LCD_DISPLAY_ROWS};
use serde_json::{json, Value};

#[derive(Default)]
pub struct State {}

type Buf = [[u8; LCD_DISPLAY_COLS]; LCD_DISPLAY_ROWS];

fn snap(lcd: &LcdController, prev: &mut Vec<u8>) -> (Value, Value) {
    let (meta, payload) = lcd.export_snapshot();
    let mut regs: Vec<Value> = Vec::with_capacity(8);
    if let Some(chips) = meta.get("chips").and_then(|v| v.as_array()) {
        for c in chips {
            regs.push(c.get("on").cloned().unwrap_or(Value::Null));
            regs.push(c.get("start_line").cloned().unwrap_or(Value::Null));
            regs.push(c.get("page").cloned().unwrap_or(Value::Null));
            regs.push(c.get("y_address").cloned().unwrap_or(Value::Null));
        }
    }
    let mut delta: Vec<u32> = Vec::new();
    if prev.len() != payload.len() {
        // length change (never expected): ship everything, marked by a leading length entry
        delta.push(0xFFFF_FFFF);
        delta.push(payload.len() as u32);
        for (i, b) in payload.iter().enumerate() {
            delta.push(i as u32);
            delta.push(*b as u32);
        }
    } else {
        for (i, b) in payload.iter().enumerate() {
            if prev[i] != *b {
                delta.push(i as u32);
                delta.push(*b as u32);
            }
        }
    }
    *prev = payload;
    (Value::Array(regs), json!(delta))
}

fn run_history(h: &Value, out: &mut Vec<Value>) {
    let mut lcd = LcdController::new();
    let want_snap = h.get("snap").and_then(|v| v.as_bool()).unwrap_or(false);
    let mut prev: Vec<u8> = vec![0u8; 2 * 8 * 64];
    let mut base: Option<Buf> = None;
    let empty = Vec::new();
    let ops = h.get("ops").and_then(|v| v.as_array()).unwrap_or(&empty);
    for op in ops {
        let kind = op.get(0).and_then(|v| v.as_str()).unwrap_or("");
        match kind {
            "w" => {
                let addr = op.get(1).and_then(|v| v.as_u64()).unwrap_or(0) as u32;
                let val = op.get(2).and_then(|v| v.as_u64()).unwrap_or(0) as u8;
                lcd.write(addr, val);
                if want_snap {
                    let (s, v) = snap(&lcd, &mut prev);
                    out.push(json!({"s": s, "v": v}));
                } else {
                    out.push(json!({}));
                }
            }
            "r" => {
                let addr = op.get(1).and_then(|v| v.as_u64()).unwrap_or(0) as u32;
                let r = lcd.read(addr);
                if want_snap {
                    let (s, v) = snap(&lcd, &mut prev);
                    out.push(json!({"r": r, "s": s, "v": v}));
                } else {
                    out.push(json!({"r": r}));
                }
            }
            "b" => {
                let buf = lcd.display_buffer();
                let rows: Vec<String> = buf
                    .iter()
                    .map(|row| row.iter().map(|p| if *p != 0 { '1' } else { '0' }).collect())
                    .collect();
                base = Some(buf);
                out.push(json!({"b": rows}));
            }
            "d" => {
                let buf = lcd.display_buffer();
                let mut diff: Vec<u32> = Vec::new();
                match &base {
                    Some(b) => {
                        for r in 0..LCD_DISPLAY_ROWS {
                            for c in 0..LCD_DISPLAY_COLS {
                                if b[r][c] != buf[r][c] {
                                    diff.push(r as u32);
                                    diff.push(c as u32);
                                    diff.push(buf[r][c] as u32);
                                }
                            }
                        }
                        out.push(json!({"d": diff}));
                    }
                    None => out.push(json!({"error": "no base buffer"})),
                }
            }
            "v" => {
                let (_meta, payload) = lcd.export_snapshot();
                let mut hex = String::with_capacity(payload.len() * 2);
                for b in payload.iter() {
                    hex.push_str(&format!("{:02x}", b));
                }
                out.push(json!({"x": hex}));
            }
            "cb" => {
                lcd.begin_display_write_capture();
                out.push(json!({}));
            }
            "ct" => {
                let evs = lcd.take_display_write_capture();
                let list: Vec<Value> = evs
                    .iter()
                    .map(|e| json!([e.page, e.col, e.value]))
                    .collect();
                out.push(json!({"c": list}));
            }
            _ => out.push(json!({"error": format!("unknown op {kind}")})),
        }
    }
}

pub fn handle(verb: &str, req: &Value, _st: &mut State) -> Value {
    match verb {
        "run" => {
            let empty = Vec::new();
            let hs = req.get("histories").and_then(|v| v.as_array()).unwrap_or(&empty);
            let mut results: Vec<Value> = Vec::with_capacity(hs.len());
            for h in hs {
                // steps completed before a panic inside the crate are kept (the panic is the next step's result)
                let mut steps: Vec<Value> = Vec::new();
                let r = std::panic::catch_unwind(std::panic::AssertUnwindSafe(|| {
                    run_history(h, &mut steps)
                }));
                match r {
                    Ok(()) => results.push(json!({"steps": steps})),
                    Err(e) => {
                        let msg = if let Some(s) = e.downcast_ref::<&str>() {
                            s.to_string()
                        } else if let Some(s) = e.downcast_ref::<String>() {
                            s.clone()
                        } else {
                            "panic".to_string()
                        };
                        results.push(json!({"steps": steps, "panic": msg}));
                    }
                }
            }
            json!({"ok": true, "results": results})
        }
        _ => json!({"ok": false, "error": format!("c15.{verb} not implemented")}),
    }
}
