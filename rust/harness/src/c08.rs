//! c08 -- register-file adapter: batched op sequences over the crate's public register API.
//!
//! Every sequence starts from a fresh `LlamaState` ("st": `LlamaState::set_reg/get_reg` by `RegName`) and,
//! in parallel, from a fresh state inside a `CoreRuntime` ("rt": the by-name facade
//! `CoreRuntime::set_reg/get_reg/set_flag/get_flag`; TEMPn are not reachable by name there, so they go
//! through `rt.state` directly).  The adapter has no register semantics of its own: it maps names to
//! `RegName`, calls the crate, and reports what it reads.
//!
//! ops:  ["set", NAME, v]  ["setflag", "C"|"Z", v]  ["get", NAME]  ["getflag", "C"|"Z"]  ["all"]
//!       ["rt"]   collect_registers -> apply_registers on a fresh state (which replaces the current one)
//!       ["rtb"]  collect_registers -> pack_registers -> unpack_registers (+ TEMPn carried beside the blob,
//!                as CoreRuntime::save/load_snapshot do through metadata.temps) -> apply_registers (fresh)
//!       ["rtf"]  the file path: `CoreRuntime::save_snapshot(path)` on the current runtime, then
//!                `CoreRuntime::new().load_snapshot(path)`; the freshly loaded runtime REPLACES the current one
//!                (so a later "rtf" is a save by a runtime that was itself restored from a snapshot).  The bare
//!                `LlamaState` has no file path of its own and does what "rtb" does.  The file lives in the
//!                request's "dir" (<verif>/scratch/...) and is deleted before the op returns.
//!       ["collect"]  the collect_registers map itself
//!
//! Round 3 additions:
//!  * names: besides the 28 shared names the register file accepts the Rust-only IMR mirror register
//!    (`RegName::IMR`, also known to the by-name facade) -- reported by every read-all under "x" -- and, write-only
//!    for the adapter, out-of-range scratch names `TEMP14`, `TEMP15`, `TEMP255` (`RegName::Temp(idx >= 14)`) and
//!    `UNKNOWN` (`RegName::Unknown(..)`), which `LlamaState::set_reg` accepts as well.
//!  * ["exec", HEX, seed]  one instruction through `LlamaExecutor::execute` on the current register file over a
//!    hash-filled bus (crate::cpu::HashBus, fill seed `seed`, the bytes HEX placed at PC); reports read-all
//!    before/after.  A failing/panicking instruction is reported as "err", not as a failed history.
//!  * ["snap", k, "d"|"b"]  take a snapshot into slot k (`collect_registers`, an owned map; "b": packed with
//!    `pack_registers` at once, TEMPn kept beside the blob); reports read-all at the time the snapshot is taken.
//!  * ["apply", k, "replace"|"peek"]  apply slot k to a FRESH register file and read everything from it;
//!    "replace": the fresh file becomes the current one, "peek": it is dropped again.  Reports the source's
//!    current values ("cur") and the fresh file's values ("after").  An empty slot yields null.
//!
//! Round 4 additions (rejected operations leave no trace; snapshots are values also under observation):
//!  * ["badload", KIND]  `CoreRuntime::load_snapshot(path)` on the CURRENT, running runtime with a file the crate is
//!    expected to reject (the request's "bad" object maps KIND to a path prepared by the Python side: missing file,
//!    garbage, truncated archive, wrong magic/version, wrong registers.bin length, RAM size mismatch, ...).  Reports
//!    read-all before/after and whether the call returned Err ("rej").  The bare `LlamaState` has no load path.
//!  * ["rtf", KIND]  as "rtf", but the brand-new runtime first attempts to load the bad file KIND (reported as
//!    "pre_rej" + its read-all "mid") and then loads the valid file.
//!  * ["badname", "set"|"get"|"setflag"|"getflag", NAME, v]  by-name facade access with a NAME that is no register
//!    (`CoreRuntime::set_reg/get_reg/set_flag/get_flag` ignore it); read-all before/after.
//!  * ["observe", k, WHAT, arg]  read-only use of the live snapshot in slot k (compare with slot `arg` / iterate /
//!    clone / pack / run one instruction from a copy of it); reports what the snapshot restores into a fresh
//!    register file before ("pre") and after ("post") the observation, likewise for the operand slot
//!    ("opre"/"opost").  An empty slot yields null.
//! Round 5 additions (lifecycle verbs; names across the snapshot boundary):
//!  * ["reset"]  `LlamaState::reset()` on the CURRENT register file (both of them), which goes on being used;
//!    reports read-all right after it.
//!  * ["load", {NAME: v, ..}]  a snapshot map built from the given names (the 8 full registers / TEMPn), applied with
//!    `apply_registers` to a fresh `LlamaState`, which replaces the current one; reports read-all.
//!  * ["collect"] now reports {"collect": {st, rt}, "reads": read-all} so the map can be held against the reads.
//!  verb "template": save a snapshot of a brand-new runtime whose registers were set from the request (the valid
//!  archive the Python side derives the bad files from).
use crate::cpu::{canon, HashBus};
use crate::util::err;
use sc62015_core::llama::eval::LlamaExecutor;
use sc62015_core::llama::opcodes::RegName;
use sc62015_core::llama::state::LlamaState;
use sc62015_core::snapshot::{pack_registers, unpack_registers};
use sc62015_core::{apply_registers, collect_registers, CoreRuntime};
use serde_json::{json, Map, Value};
use std::collections::HashMap;

pub const NAMES: [&str; 28] = [
    "A", "B", "BA", "IL", "IH", "I", "X", "Y", "U", "S", "PC", "F", "FC", "FZ", "TEMP0", "TEMP1",
    "TEMP2", "TEMP3", "TEMP4", "TEMP5", "TEMP6", "TEMP7", "TEMP8", "TEMP9", "TEMP10", "TEMP11",
    "TEMP12", "TEMP13",
];

/// Rust-only names that are read back (reported under "x" by every read-all).
pub const XNAMES: [&str; 1] = ["IMR"];
/// Rust-only names the adapter only writes (out-of-range scratch registers / unknown operand names).
pub const WNAMES: [&str; 4] = ["TEMP14", "TEMP15", "TEMP255", "UNKNOWN"];
const SLOTS: usize = 4;

/// A taken snapshot: the owned register map, or the packed blob + the TEMPs that travel beside it.
#[derive(Clone)]
enum Snap {
    Direct(HashMap<String, u32>),
    Blob(Vec<u8>, HashMap<String, u32>),
}

#[derive(Default)]
pub struct State {
    rt: Option<CoreRuntime>,
    /// the session runtime went through a snapshot file: it is replaced by `CoreRuntime::new()` before the
    /// next history, so that every history starts from a never-restored runtime
    restored: bool,
    files: u64,
}

/// Deletes the scratch snapshot file when the op is over, whatever happened.
struct TempFile(std::path::PathBuf);

impl Drop for TempFile {
    fn drop(&mut self) {
        let _ = std::fs::remove_file(&self.0);
    }
}

/// save_snapshot on `rt`, load_snapshot into a brand-new runtime, which is returned.
fn file_roundtrip(
    rt: &CoreRuntime,
    dir: &str,
    serial: u64,
    bad_first: Option<&str>,
) -> Result<(CoreRuntime, Option<(bool, Value)>), String> {
    let path = std::path::Path::new(dir).join(format!("c08-{}-{}.pcsnap", std::process::id(), serial));
    let guard = TempFile(path);
    rt.save_snapshot(&guard.0)
        .map_err(|e| format!("save_snapshot: {e}"))?;
    let mut fresh = CoreRuntime::new();
    let mut pre = None;
    if let Some(bad) = bad_first {
        let rejected = fresh.load_snapshot(std::path::Path::new(bad)).is_err();
        pre = Some((rejected, read_all(&LlamaState::new(), &fresh)));
    }
    fresh
        .load_snapshot(&guard.0)
        .map_err(|e| format!("load_snapshot: {e}"))?;
    Ok((fresh, pre))
}

fn bad_path<'a>(bad: Option<&'a Value>, kind: &str) -> Result<&'a str, String> {
    bad.and_then(|b| b.get(kind))
        .and_then(|v| v.as_str())
        .ok_or_else(|| format!("no bad snapshot file of kind {kind} in the request"))
}

/// What a snapshot restores into a fresh register file (both register files' slots), read through `read_all`.
fn probe(s_st: &Snap, s_rt: &Snap, rt: &mut CoreRuntime) -> Result<Value, String> {
    let fresh_st = apply_snapshot(s_st)?;
    let fresh_rt = apply_snapshot(s_rt)?;
    let old = std::mem::replace(&mut rt.state, fresh_rt);
    let v = read_all(&fresh_st, rt);
    rt.state = old;
    Ok(v)
}

fn snap_map(s: &Snap) -> HashMap<String, u32> {
    match s {
        Snap::Direct(m) => m.clone(),
        Snap::Blob(payload, temps) => {
            let mut m = unpack_registers(payload).unwrap_or_default();
            for (k, v) in temps.iter() {
                m.insert(k.clone(), *v);
            }
            m
        }
    }
}

/// Read-only uses of a live snapshot (shared references only); the returned number is informational.
fn observe(s: &Snap, other: Option<&Snap>, what: &str, arg: &Value) -> u64 {
    match what {
        "diff" | "rdiff" | "eq" => {
            let a = snap_map(s);
            let b = other.map(snap_map).unwrap_or_default();
            let (l, r) = if what == "rdiff" { (&b, &a) } else { (&a, &b) };
            let mut n = 0u64;
            for (k, v) in l.iter() {
                if r.get(k).copied().unwrap_or(0) != *v {
                    n += 1;
                }
            }
            n + (a == b) as u64
        }
        "to_dict" | "repr" => {
            let mut m = snap_map(s);
            let n = m.len() as u64;
            m.clear();
            n
        }
        "pack" => match s {
            Snap::Direct(m) => pack_registers(m).len() as u64,
            Snap::Blob(p, _) => unpack_registers(p).map(|m| m.len() as u64).unwrap_or(0),
        },
        "step" => {
            // the analogue of Python's CPUStepper: run one instruction on a register file restored from the snapshot
            let bytes = arg.as_str().and_then(parse_hex).unwrap_or_default();
            match apply_snapshot(s) {
                Ok(mut state) => {
                    let mut bus = HashBus::new(0);
                    let _ = exec_one(&mut state, &mut bus, &bytes, 0);
                    collect_registers(&state).len() as u64
                }
                Err(_) => 0,
            }
        }
        _ => 0,
    }
}

fn reg_of(name: &str) -> Option<RegName> {
    Some(match name {
        "A" => RegName::A,
        "B" => RegName::B,
        "BA" => RegName::BA,
        "IL" => RegName::IL,
        "IH" => RegName::IH,
        "I" => RegName::I,
        "X" => RegName::X,
        "Y" => RegName::Y,
        "U" => RegName::U,
        "S" => RegName::S,
        "PC" => RegName::PC,
        "F" => RegName::F,
        "FC" => RegName::FC,
        "FZ" => RegName::FZ,
        "IMR" => RegName::IMR,
        "UNKNOWN" => RegName::Unknown("UNKNOWN"),
        _ => {
            let idx = name.strip_prefix("TEMP")?.parse::<u8>().ok()?;
            if idx >= 14 && !WNAMES.contains(&name) {
                return None;
            }
            RegName::Temp(idx)
        }
    })
}

fn flag_reg_name(flag: &str) -> Option<&'static str> {
    match flag {
        "C" => Some("FC"),
        "Z" => Some("FZ"),
        _ => None,
    }
}

fn rt_get(rt: &CoreRuntime, name: &str) -> u32 {
    if name.starts_with("TEMP") || name == "UNKNOWN" {
        reg_of(name).map(|r| rt.state.get_reg(r)).unwrap_or(0)
    } else {
        rt.get_reg(name)
    }
}

fn rt_set(rt: &mut CoreRuntime, name: &str, v: u32) {
    if name.starts_with("TEMP") || name == "UNKNOWN" {
        if let Some(r) = reg_of(name) {
            rt.state.set_reg(r, v);
        }
    } else {
        rt.set_reg(name, v);
    }
}

fn read_all(st: &LlamaState, rt: &CoreRuntime) -> Value {
    let a: Vec<u32> = NAMES
        .iter()
        .map(|n| st.get_reg(reg_of(n).unwrap()))
        .collect();
    let b: Vec<u32> = NAMES.iter().map(|n| rt_get(rt, n)).collect();
    let xa: Vec<u32> = XNAMES
        .iter()
        .map(|n| st.get_reg(reg_of(n).unwrap()))
        .collect();
    let xb: Vec<u32> = XNAMES.iter().map(|n| rt_get(rt, n)).collect();
    json!({"st": a, "rt": b, "x": {"st": xa, "rt": xb}})
}

fn take_snapshot(state: &LlamaState, blob: bool) -> Snap {
    let regs = collect_registers(state);
    if blob {
        let payload = pack_registers(&regs);
        let temps: HashMap<String, u32> = regs
            .iter()
            .filter(|(k, _)| k.starts_with("TEMP"))
            .map(|(k, v)| (k.clone(), *v))
            .collect();
        Snap::Blob(payload, temps)
    } else {
        Snap::Direct(regs)
    }
}

fn apply_snapshot(snap: &Snap) -> Result<LlamaState, String> {
    let mut fresh = LlamaState::new();
    match snap {
        Snap::Direct(regs) => apply_registers(&mut fresh, regs),
        Snap::Blob(payload, temps) => {
            let mut un = unpack_registers(payload).map_err(|e| format!("unpack_registers: {e}"))?;
            for (k, v) in temps.iter() {
                un.insert(k.clone(), *v);
            }
            apply_registers(&mut fresh, &un);
        }
    }
    Ok(fresh)
}

fn parse_hex(s: &str) -> Option<Vec<u8>> {
    if s.is_empty() || s.len() % 2 != 0 {
        return None;
    }
    (0..s.len())
        .step_by(2)
        .map(|i| u8::from_str_radix(s.get(i..i + 2)?, 16).ok())
        .collect()
}

/// One instruction on `state`: the bytes are placed at PC on the hash bus, the executor gets the opcode at PC.
fn exec_one(state: &mut LlamaState, bus: &mut HashBus, bytes: &[u8], seed: u32) -> Value {
    bus.seed = seed;
    let pc = state.pc();
    for (i, b) in bytes.iter().enumerate() {
        bus.over.insert(canon(pc.wrapping_add(i as u32)), *b);
    }
    let opcode = bus.peek(pc);
    let mut exec = LlamaExecutor::new();
    let r = std::panic::catch_unwind(std::panic::AssertUnwindSafe(|| {
        exec.execute(opcode, state, bus)
    }));
    match r {
        Ok(Ok(_)) => Value::Null,
        Ok(Err(e)) => json!(e),
        Err(_) => json!("panic"),
    }
}

fn map_to_json(m: &HashMap<String, u32>) -> Value {
    let mut keys: Vec<&String> = m.keys().collect();
    keys.sort();
    let mut out = Map::new();
    for k in keys {
        out.insert(k.clone(), json!(m[k]));
    }
    Value::Object(out)
}

/// collect -> (optionally pack/unpack) -> apply on a fresh state; returns (fresh state, blob as hex).
fn roundtrip(state: &LlamaState, blob: bool) -> Result<(LlamaState, String), String> {
    let regs = collect_registers(state);
    let mut fresh = LlamaState::new();
    if blob {
        let payload = pack_registers(&regs);
        let hex: String = payload.iter().map(|b| format!("{b:02x}")).collect();
        let mut un = unpack_registers(&payload).map_err(|e| format!("unpack_registers: {e}"))?;
        for (k, v) in regs.iter() {
            if k.starts_with("TEMP") {
                un.insert(k.clone(), *v);
            }
        }
        apply_registers(&mut fresh, &un);
        Ok((fresh, hex))
    } else {
        apply_registers(&mut fresh, &regs);
        Ok((fresh, String::new()))
    }
}

fn run_seq(
    ops: &[Value],
    rt: &mut CoreRuntime,
    dir: Option<&str>,
    bad: Option<&Value>,
    restored: &mut bool,
    files: &mut u64,
) -> Result<Vec<Value>, String> {
    let mut st = LlamaState::new();
    if *restored {
        *rt = CoreRuntime::new();
        *restored = false;
    }
    rt.state = LlamaState::new();
    let mut bus_st = HashBus::new(0);
    let mut bus_rt = HashBus::new(0);
    let mut slots_st: Vec<Option<Snap>> = vec![None; SLOTS];
    let mut slots_rt: Vec<Option<Snap>> = vec![None; SLOTS];
    let mut out = Vec::with_capacity(ops.len());
    for op in ops {
        let arr = op.as_array().ok_or("op is not an array")?;
        let verb = arr.first().and_then(|v| v.as_str()).ok_or("op verb")?;
        match verb {
            "set" => {
                let name = arr.get(1).and_then(|v| v.as_str()).ok_or("set name")?;
                let v = arr.get(2).and_then(|v| v.as_u64()).ok_or("set value")? as u32;
                let reg = reg_of(name).ok_or_else(|| format!("unknown register {name}"))?;
                st.set_reg(reg, v);
                rt_set(rt, name, v);
                out.push(Value::Null);
            }
            "setflag" => {
                let flag = arr.get(1).and_then(|v| v.as_str()).ok_or("flag name")?;
                let v = arr.get(2).and_then(|v| v.as_u64()).ok_or("flag value")? as u32;
                let name = flag_reg_name(flag).ok_or_else(|| format!("unknown flag {flag}"))?;
                st.set_reg(reg_of(name).unwrap(), v);
                // CoreRuntime::set_flag takes a u8; bit 0 (all a 1-bit flag can hold) survives the cast.
                rt.set_flag(name, (v & 0xFF) as u8);
                out.push(Value::Null);
            }
            "get" => {
                let name = arr.get(1).and_then(|v| v.as_str()).ok_or("get name")?;
                let reg = reg_of(name).ok_or_else(|| format!("unknown register {name}"))?;
                out.push(json!([st.get_reg(reg), rt_get(rt, name)]));
            }
            "getflag" => {
                let flag = arr.get(1).and_then(|v| v.as_str()).ok_or("flag name")?;
                let name = flag_reg_name(flag).ok_or_else(|| format!("unknown flag {flag}"))?;
                out.push(json!([st.get_reg(reg_of(name).unwrap()), rt.get_flag(name) as u32]));
            }
            "all" => out.push(read_all(&st, rt)),
            "reset" => {
                // the register file's own lifecycle verb: the SAME object goes on being used afterwards
                st.reset();
                rt.state.reset();
                out.push(read_all(&st, rt));
            }
            "load" => {
                // a snapshot built from explicit named values (not collected from a register file) is applied
                // to a fresh register file, which replaces the current one
                let obj = arr.get(1).and_then(|v| v.as_object()).ok_or("load values")?;
                let mut regs: HashMap<String, u32> = HashMap::new();
                for (k, v) in obj.iter() {
                    if !NAMES.contains(&k.as_str()) {
                        return Err(format!("load: {k} is no snapshot register"));
                    }
                    regs.insert(k.clone(), v.as_u64().ok_or("load value")? as u32);
                }
                let mut fresh_st = LlamaState::new();
                apply_registers(&mut fresh_st, &regs);
                let mut fresh_rt = LlamaState::new();
                apply_registers(&mut fresh_rt, &regs);
                st = fresh_st;
                rt.state = fresh_rt;
                out.push(read_all(&st, rt));
            }
            "rt" | "rtb" => {
                let before = read_all(&st, rt);
                let (fresh_st, blob) = roundtrip(&st, verb == "rtb")?;
                let (fresh_rt, _) = roundtrip(&rt.state, verb == "rtb")?;
                st = fresh_st;
                rt.state = fresh_rt;
                let after = read_all(&st, rt);
                out.push(json!({"before": before, "after": after, "blob": blob}));
            }
            "rtf" => {
                let dir = dir.ok_or("rtf needs a scratch dir")?;
                let before = read_all(&st, rt);
                let (fresh_st, _) = roundtrip(&st, true)?;
                *files += 1;
                *restored = true;
                let bad_first = match arr.get(1).and_then(|v| v.as_str()) {
                    Some(kind) => Some(bad_path(bad, kind)?),
                    None => None,
                };
                let (fresh_rt, pre) = file_roundtrip(rt, dir, *files, bad_first)?;
                st = fresh_st;
                *rt = fresh_rt;
                let after = read_all(&st, rt);
                match pre {
                    Some((rejected, mid)) => out.push(json!({"before": before, "after": after, "blob": "",
                        "mid": mid, "pre_rej": {"st": true, "rt": rejected}})),
                    None => out.push(json!({"before": before, "after": after, "blob": ""})),
                }
            }
            "badload" => {
                let kind = arr.get(1).and_then(|v| v.as_str()).ok_or("badload kind")?;
                let path = bad_path(bad, kind)?;
                let before = read_all(&st, rt);
                *restored = true; // whatever the call did to the session runtime: start the next history afresh
                let r = rt.load_snapshot(std::path::Path::new(path));
                let why = r.as_ref().err().map(|e| e.to_string()).unwrap_or_default();
                let after = read_all(&st, rt);
                out.push(json!({"before": before, "after": after, "rej": {"st": true, "rt": r.is_err()},
                                "why": why}));
            }
            "badname" => {
                let how = arr.get(1).and_then(|v| v.as_str()).ok_or("badname verb")?;
                let name = arr.get(2).and_then(|v| v.as_str()).ok_or("badname name")?;
                let v = arr.get(3).and_then(|v| v.as_u64()).unwrap_or(0) as u32;
                if NAMES.contains(&name) || XNAMES.contains(&name) || WNAMES.contains(&name) {
                    return Err(format!("badname: {name} is a register name"));
                }
                let before = read_all(&st, rt);
                match how {
                    "set" => rt.set_reg(name, v),
                    "get" => {
                        let _ = rt.get_reg(name);
                    }
                    "setflag" => rt.set_flag(name, (v & 0xFF) as u8),
                    "getflag" => {
                        let _ = rt.get_flag(name);
                    }
                    other => return Err(format!("badname: unknown access {other}")),
                }
                let after = read_all(&st, rt);
                out.push(json!({"before": before, "after": after}));
            }
            "observe" => {
                let k = arr.get(1).and_then(|v| v.as_u64()).ok_or("observe slot")? as usize;
                let what = arr.get(2).and_then(|v| v.as_str()).ok_or("observe kind")?;
                let arg = arr.get(3).cloned().unwrap_or(Value::Null);
                if k >= SLOTS {
                    return Err(format!("snapshot slot {k} out of range"));
                }
                let j = arg.as_u64().map(|j| j as usize).filter(|j| *j < SLOTS);
                match (slots_st[k].clone(), slots_rt[k].clone()) {
                    (Some(s_st), Some(s_rt)) => {
                        let o_st = j.and_then(|j| slots_st[j].clone());
                        let o_rt = j.and_then(|j| slots_rt[j].clone());
                        // operand: the other live snapshot, else a snapshot of the current register file
                        let cur_st = take_snapshot(&st, false);
                        let cur_rt = take_snapshot(&rt.state, false);
                        let pre = probe(&s_st, &s_rt, rt)?;
                        let opre = match (&o_st, &o_rt) {
                            (Some(a), Some(b)) => Some(probe(a, b, rt)?),
                            _ => None,
                        };
                        let n_st = observe(&s_st, Some(o_st.as_ref().unwrap_or(&cur_st)), what, &arg);
                        let n_rt = observe(&s_rt, Some(o_rt.as_ref().unwrap_or(&cur_rt)), what, &arg);
                        let post = probe(&s_st, &s_rt, rt)?;
                        let mut o = json!({"pre": pre, "post": post, "n": {"st": n_st, "rt": n_rt}});
                        if let (Some(a), Some(b), Some(opre)) = (&o_st, &o_rt, opre) {
                            o["opre"] = opre;
                            o["opost"] = probe(a, b, rt)?;
                        }
                        out.push(o);
                    }
                    _ => out.push(Value::Null),
                }
            }
            "exec" => {
                let hex = arr.get(1).and_then(|v| v.as_str()).ok_or("exec bytes")?;
                let seed = arr.get(2).and_then(|v| v.as_u64()).unwrap_or(0) as u32;
                let bytes = parse_hex(hex).ok_or("exec bytes are not hex")?;
                let before = read_all(&st, rt);
                let e_st = exec_one(&mut st, &mut bus_st, &bytes, seed);
                let e_rt = exec_one(&mut rt.state, &mut bus_rt, &bytes, seed);
                let after = read_all(&st, rt);
                out.push(json!({"before": before, "after": after, "err": {"st": e_st, "rt": e_rt}}));
            }
            "snap" => {
                let k = arr.get(1).and_then(|v| v.as_u64()).ok_or("snap slot")? as usize;
                let kind = arr.get(2).and_then(|v| v.as_str()).ok_or("snap kind")?;
                if k >= SLOTS {
                    return Err(format!("snapshot slot {k} out of range"));
                }
                let taken = read_all(&st, rt);
                slots_st[k] = Some(take_snapshot(&st, kind == "b"));
                slots_rt[k] = Some(take_snapshot(&rt.state, kind == "b"));
                out.push(taken);
            }
            "apply" => {
                let k = arr.get(1).and_then(|v| v.as_u64()).ok_or("apply slot")? as usize;
                let mode = arr.get(2).and_then(|v| v.as_str()).ok_or("apply mode")?;
                if k >= SLOTS {
                    return Err(format!("snapshot slot {k} out of range"));
                }
                match (&slots_st[k], &slots_rt[k]) {
                    (Some(s_st), Some(s_rt)) => {
                        let cur = read_all(&st, rt);
                        let fresh_st = apply_snapshot(s_st)?;
                        let fresh_rt = apply_snapshot(s_rt)?;
                        let old_st = std::mem::replace(&mut st, fresh_st);
                        let old_rt = std::mem::replace(&mut rt.state, fresh_rt);
                        let after = read_all(&st, rt);
                        if mode != "replace" {
                            st = old_st;
                            rt.state = old_rt;
                        }
                        out.push(json!({"cur": cur, "after": after}));
                    }
                    _ => out.push(Value::Null),
                }
            }
            "host" => out.push(Value::Null),
            "collect" => {
                out.push(json!({"collect": {"st": map_to_json(&collect_registers(&st)),
                                            "rt": map_to_json(&collect_registers(&rt.state))},
                                "reads": read_all(&st, rt)}));
            }
            other => return Err(format!("unknown op {other}")),
        }
    }
    Ok(out)
}

pub fn handle(verb: &str, req: &Value, sess: &mut State) -> Value {
    match verb {
        "names" => json!({"ok": true, "names": NAMES, "xnames": XNAMES, "wnames": WNAMES}),
        "run" => {
            let seqs = match req.get("seqs").and_then(|v| v.as_array()) {
                Some(s) => s,
                None => return err("c08.run needs seqs"),
            };
            let dir = req.get("dir").and_then(|v| v.as_str());
            let bad = req.get("bad");
            if sess.rt.is_none() {
                sess.rt = Some(CoreRuntime::new());
            }
            let State { rt, restored, files } = sess;
            let rt = rt.as_mut().unwrap();
            let mut results = Vec::with_capacity(seqs.len());
            for seq in seqs {
                let ops = match seq.as_array() {
                    Some(o) => o,
                    None => return err("sequence is not an array"),
                };
                match run_seq(ops, rt, dir, bad, restored, files) {
                    Ok(obs) => results.push(json!({"obs": obs})),
                    Err(e) => results.push(json!({"error": e})),
                }
            }
            json!({"ok": true, "results": results})
        }
        "template" => {
            let path = match req.get("path").and_then(|v| v.as_str()) {
                Some(p) => p,
                None => return err("c08.template needs path"),
            };
            let mut rt = CoreRuntime::new();
            if let Some(regs) = req.get("regs").and_then(|v| v.as_array()) {
                for pair in regs {
                    let name = pair.get(0).and_then(|v| v.as_str()).unwrap_or("");
                    let v = pair.get(1).and_then(|v| v.as_u64()).unwrap_or(0) as u32;
                    if reg_of(name).is_none() {
                        return err(format!("c08.template: unknown register {name}"));
                    }
                    rt_set(&mut rt, name, v);
                }
            }
            match rt.save_snapshot(std::path::Path::new(path)) {
                Ok(()) => json!({"ok": true}),
                Err(e) => err(format!("c08.template: save_snapshot: {e}")),
            }
        }
        _ => err(format!("unknown c08 verb {verb}")),
    }
}
