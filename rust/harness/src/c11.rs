//! c11 -- memory-bus property: drive `MemoryImage` (direct API) and `CoreRuntime::step` (CPU-facing
//! RuntimeBus) through configuration steps and batched access histories.
//!
//! The harness owns no memory semantics: every configuration step and every operation is one call of the
//! crate's public API; the reference model and all verdicts live on the Python side
//! (vp_harness/c11_model.py).  Pattern data (ROM images, card images, RAM fill) is generated from a tiny
//! arithmetic formula that the Python side implements identically (`pat`).
//!
//! request : {"cmd":"c11.run","cases":[{"mode":"direct"|"cpu","cfg":[step..],"sent":[addr..],"ops":[op..]}]}
//!   step  : ["mirror",bool] | ["fill",k] | ["slice",start,len,k] | ["pce500_map"] | ["rom_window",len,k]
//!           | ["sys_image",len,k]  load_pce500_system_image (cpu) / .._into_memory + configure map (direct)
//!           | ["ro",[[s,e]..]] | ["card",size,k] | ["slot",bool] | ["ram_ovl",start,size,name]
//!           | ["rom_ovl",start,size,k,name]
//!           | ["card_raw",len,k]  load_memory_card with an image of ANY length; the Result is ignored (the
//!             caller's "handle the error and carry on")   | ["remove_ovl",name]
//!           | ["copy_ext",len,k]  copy_external_from(len bytes); Result ignored
//!   op    : ["st",addr,bits,value,[probe..]] | ["ld",addr,bits,[probe..]]                 (direct + cpu*)
//!           | ["x",code_addr,[byte..],{reg:value..},ret_reg|null,[probe..]]               (cpu only)
//!           | ["cfg",step,[probe..]]   a configuration step in the middle of a history (ret 0)
//!           | ["imem"]   bulk view: result [0, the 256 bytes of MemoryImage::internal_slice()] (no probes)
//!           (*in cpu mode "st"/"ld" go straight to rt.memory: used for set-up and observation)
//! response: {"ok":true,"results":[{"ops":[[ret,[sentinel values..,probe values..]]..]} | {"error":..}]}
//!   ret = loaded value / register value, -1 when the API returned None, -2 when step() returned Err.
use crate::util::err;
use sc62015_core::memory::MemoryImage;
use sc62015_core::pce500::{
    configure_pce500_memory_map, load_pce500_rom_window, load_pce500_rom_window_into_memory,
    load_pce500_system_image, load_pce500_system_image_into_memory,
};
use sc62015_core::CoreRuntime;
use serde_json::{json, Value};

#[derive(Default)]
pub struct State {}

pub fn pat(k: u32, i: u32) -> u8 {
    (i.wrapping_mul(131)
        .wrapping_add((i >> 8).wrapping_mul(29))
        .wrapping_add((i >> 16).wrapping_mul(7))
        .wrapping_add(k.wrapping_mul(53))
        .wrapping_add(1)
        & 0xFF) as u8
}

fn pat_vec(k: u32, base: u32, len: usize) -> Vec<u8> {
    (0..len as u32).map(|i| pat(k, base.wrapping_add(i))).collect()
}

fn u(v: &Value) -> u64 {
    v.as_u64().unwrap_or(0)
}

enum Target {
    Direct(Box<MemoryImage>),
    Cpu(Box<CoreRuntime>),
}

impl Target {
    fn mem(&mut self) -> &mut MemoryImage {
        match self {
            Target::Direct(m) => m,
            Target::Cpu(rt) => &mut rt.memory,
        }
    }
}

fn apply_step(t: &mut Target, step: &Value) -> Result<(), String> {
    let a = step.as_array().ok_or("cfg step must be an array")?;
    let name = a.first().and_then(|v| v.as_str()).unwrap_or("");
    match name {
        "mirror" => t.mem().set_internal_ram_mirror(a[1].as_bool().unwrap_or(false)),
        "fill" => {
            let blob = pat_vec(u(&a[1]) as u32, 0, 0x100000);
            t.mem().load_external(&blob);
        }
        "slice" => {
            let start = u(&a[1]) as usize;
            let data = pat_vec(u(&a[3]) as u32, start as u32, u(&a[2]) as usize);
            match t {
                Target::Direct(m) => m.write_external_slice(start, &data),
                Target::Cpu(rt) => rt.load_rom(&data, start),
            }
        }
        "pce500_map" => configure_pce500_memory_map(t.mem()),
        "rom_window" => {
            // image of `len` bytes whose last 256 KiB land at 0xC0000 (pattern indexed by final address)
            let len = u(&a[1]) as usize;
            let base = 0x100000u32.wrapping_sub(len as u32);
            let data = pat_vec(u(&a[2]) as u32, base, len);
            match t {
                Target::Direct(m) => {
                    load_pce500_rom_window_into_memory(m, &data);
                    configure_pce500_memory_map(m);
                }
                Target::Cpu(rt) => load_pce500_rom_window(rt, &data).map_err(|e| e.to_string())?,
            }
        }
        "sys_image" => {
            // image of `len` bytes handed to the system-image entry point; pattern indexed by final address
            // (>= 1 MiB: byte i is address i; shorter: the image ends at 0xFFFFF)
            let len = u(&a[1]) as usize;
            let base = if len >= 0x100000 { 0 } else { 0x100000u32.wrapping_sub(len as u32) };
            let data = pat_vec(u(&a[2]) as u32, base, len);
            match t {
                Target::Direct(m) => {
                    load_pce500_system_image_into_memory(m, &data);
                    configure_pce500_memory_map(m);
                }
                Target::Cpu(rt) => load_pce500_system_image(rt, &data).map_err(|e| e.to_string())?,
            }
        }
        "ro" => {
            let ranges: Vec<(u32, u32)> = a[1]
                .as_array()
                .map(|l| {
                    l.iter()
                        .map(|r| (u(&r[0]) as u32, u(&r[1]) as u32))
                        .collect()
                })
                .unwrap_or_default();
            t.mem().set_readonly_ranges(ranges);
        }
        "card" => {
            let data = pat_vec(u(&a[2]) as u32, 0x40000, u(&a[1]) as usize);
            match t {
                Target::Direct(m) => m.load_memory_card(&data).map_err(|e| e.to_string())?,
                Target::Cpu(rt) => rt.load_memory_card(&data).map_err(|e| e.to_string())?,
            }
        }
        "card_raw" => {
            let data = pat_vec(u(&a[2]) as u32, 0x40000, u(&a[1]) as usize);
            let _ = match t {
                Target::Direct(m) => m.load_memory_card(&data),
                Target::Cpu(rt) => rt.load_memory_card(&data),
            };
        }
        "remove_ovl" => {
            let nm = a[1].as_str().unwrap_or("");
            match t {
                Target::Direct(m) => m.remove_overlay(nm),
                Target::Cpu(rt) => rt.remove_overlay(nm),
            }
        }
        "copy_ext" => {
            let data = pat_vec(u(&a[2]) as u32, 0, u(&a[1]) as usize);
            let _ = t.mem().copy_external_from(&data);
        }
        "slot" => t
            .mem()
            .set_memory_card_slot_present(a[1].as_bool().unwrap_or(true)),
        "ram_ovl" => {
            let (start, size) = (u(&a[1]) as u32, u(&a[2]) as usize);
            let nm = a[3].as_str().unwrap_or("ram");
            match t {
                Target::Direct(m) => m.add_ram_overlay(start, size, nm),
                Target::Cpu(rt) => rt.add_ram_overlay(start, size, nm),
            }
        }
        "rom_ovl" => {
            let start = u(&a[1]) as u32;
            let data = pat_vec(u(&a[3]) as u32, start, u(&a[2]) as usize);
            let nm = a[4].as_str().unwrap_or("rom");
            match t {
                Target::Direct(m) => m.add_rom_overlay(start, &data, nm),
                Target::Cpu(rt) => rt.add_rom_overlay(start, &data, nm),
            }
        }
        other => return Err(format!("unknown cfg step {other}")),
    }
    Ok(())
}

fn probes(t: &mut Target, sent: &[u32], extra: Option<&Value>) -> Value {
    let mem = t.mem();
    let mut out: Vec<i64> = Vec::with_capacity(sent.len() + 24);
    for p in sent {
        out.push(mem.load(*p, 8).map(|v| v as i64).unwrap_or(-1));
    }
    if let Some(list) = extra.and_then(|v| v.as_array()) {
        for p in list {
            out.push(mem.load(u(p) as u32, 8).map(|v| v as i64).unwrap_or(-1));
        }
    }
    json!(out)
}

fn run_case(case: &Value) -> Value {
    let mode = case.get("mode").and_then(|v| v.as_str()).unwrap_or("direct");
    let mut t = if mode == "cpu" {
        Target::Cpu(Box::new(CoreRuntime::new()))
    } else {
        Target::Direct(Box::new(MemoryImage::new()))
    };
    if let Some(steps) = case.get("cfg").and_then(|v| v.as_array()) {
        for s in steps {
            if let Err(e) = apply_step(&mut t, s) {
                return json!({"error": format!("cfg: {e}")});
            }
        }
    }
    let sent: Vec<u32> = case
        .get("sent")
        .and_then(|v| v.as_array())
        .map(|l| l.iter().map(|x| u(x) as u32).collect())
        .unwrap_or_default();
    let mut results: Vec<Value> = Vec::new();
    let empty = Vec::new();
    let ops = case.get("ops").and_then(|v| v.as_array()).unwrap_or(&empty);
    for op in ops {
        let a = match op.as_array() {
            Some(a) => a,
            None => return json!({"error": "op must be an array"}),
        };
        let kind = a.first().and_then(|v| v.as_str()).unwrap_or("");
        let (ret, extra): (i64, Option<&Value>) = match kind {
            "st" => {
                let r = t
                    .mem()
                    .store(u(&a[1]) as u32, u(&a[2]) as u8, u(&a[3]) as u32);
                (if r.is_some() { 0 } else { -1 }, a.get(4))
            }
            "ld" => {
                let r = t.mem().load(u(&a[1]) as u32, u(&a[2]) as u8);
                (r.map(|v| v as i64).unwrap_or(-1), a.get(3))
            }
            "imem" => {
                let vals: Vec<i64> = t.mem().internal_slice().iter().map(|b| *b as i64).collect();
                results.push(json!([0, vals]));
                continue;
            }
            "cfg" => {
                if let Err(e) = apply_step(&mut t, &a[1]) {
                    return json!({"error": format!("cfg op: {e}")});
                }
                (0, a.get(2))
            }
            "x" => match &mut t {
                Target::Cpu(rt) => {
                    let code_addr = u(&a[1]) as usize;
                    let code: Vec<u8> = a[2]
                        .as_array()
                        .map(|l| l.iter().map(|b| u(b) as u8).collect())
                        .unwrap_or_default();
                    rt.memory.write_external_slice(code_addr, &code);
                    if let Some(regs) = a[3].as_object() {
                        for (name, val) in regs {
                            rt.set_reg(name, u(val) as u32);
                        }
                    }
                    rt.set_reg("PC", code_addr as u32);
                    let r = match rt.step(1) {
                        Ok(()) => match a[4].as_str() {
                            Some(rn) => rt.get_reg(rn) as i64,
                            None => 0,
                        },
                        Err(_) => -2,
                    };
                    (r, a.get(5))
                }
                Target::Direct(_) => return json!({"error": "op x needs mode cpu"}),
            },
            other => return json!({"error": format!("unknown op {other}")}),
        };
        let pv = probes(&mut t, &sent, extra);
        results.push(json!([ret, pv]));
    }
    json!({"ops": results})
}

pub fn handle(verb: &str, req: &Value, _st: &mut State) -> Value {
    match verb {
        "run" => {
            let empty = Vec::new();
            let cases = req.get("cases").and_then(|v| v.as_array()).unwrap_or(&empty);
            let results: Vec<Value> = cases
                .iter()
                .map(|c| {
                    match std::panic::catch_unwind(std::panic::AssertUnwindSafe(|| run_case(c))) {
                        Ok(v) => v,
                        Err(e) => {
                            let msg = if let Some(s) = e.downcast_ref::<&str>() {
                                s.to_string()
                            } else if let Some(s) = e.downcast_ref::<String>() {
                                s.clone()
                            } else {
                                "panic".to_string()
                            };
                            json!({"panic": msg})
                        }
                    }
                })
                .collect();
            json!({"ok": true, "results": results})
        }
        "pat" => {
            let k = req.get("k").map(u).unwrap_or(0) as u32;
            let vals: Vec<u8> = req
                .get("idx")
                .and_then(|v| v.as_array())
                .map(|l| l.iter().map(|i| pat(k, u(i) as u32)).collect())
                .unwrap_or_default();
            json!({"ok": true, "values": vals})
        }
        _ => err(format!("unknown c11 verb {verb}")),
    }
}
