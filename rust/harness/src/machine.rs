//! machine -- drive `sc62015_core::CoreRuntime` as a whole machine (ROM image + timers + keyboard + ON key)
//! and report one observation record per step boundary.  Thin adapter: set-up, host events and
//! observation only go through the crate's public API (`CoreRuntime::{new, load_rom, step, press_on_key,
//! release_on_key}`, `TimerContext::new`, `KeyboardMatrix::{press_matrix_code, release_matrix_code,
//! inject_matrix_event, handle_write}`, `MemoryImage::{write_internal_byte, read_internal_byte_silent,
//! external_slice}`); the harness holds no interrupt semantics of its own.
//!
//! Verbs
//!   machine.run      {"scenarios":[scenario,...]} -> {"ok":true,"results":[{"obs0","steps":[{"b"?,"a"}],"err"}]}
//!   machine.new      scenario-without-events -> {"ok":true,"id":n}
//!   machine.event    {"id","kind","arg"}     machine.step {"id","n"}    machine.observe {"id"}
//!   machine.drop     {"id"}
//!
//! scenario = {"rom":[[addr,"hex"],...], "rom_base", "rom_size", "pc","s","u","ba","i","x","y","f",
//!             "imr0","isr0","mti","sti","strobe":bool,"win_lo","win_hi","steps",
//!             "events":[[step_index,"kind",arg],...],
//!             optional: "imem":[[offset,"hex"],...] initial internal-memory bytes, "kbirq":bool keyboard-interrupt
//!             enable, "im_lo","im_hi" internal-memory window reported as "im" in every observation,
//!             "calls":[n1,n2,...] (machine.run only) host batching: one `CoreRuntime::step(n)` call per entry, host
//!             events only at the starts of calls; the per-instruction records are obtained by prefix re-execution
//!             (see `run_parts`)}
//! The observation record layout equals vp_harness/c12_pymachine.py.
use crate::util::{err, get_bool, get_str, get_u32, get_u64};
use sc62015_core::llama::opcodes::RegName;
use sc62015_core::{CoreRuntime, KeyboardMatrix, TimerContext};
use serde_json::{json, Value};
use std::collections::HashMap;

#[path = "machine_c07.rs"]
mod c07x;

const IMR: u32 = 0xFB;
const ISR: u32 = 0xFC;

pub struct Machine {
    pub rt: CoreRuntime,
    pub win_lo: u32,
    pub win_hi: u32,
    /// optional internal-memory window [im_lo, im_hi) reported as "im" (absent when empty)
    pub im_lo: u32,
    pub im_hi: u32,
}

#[derive(Default)]
pub struct State {
    next_id: u64,
    machines: HashMap<u64, Machine>,
}

fn unhex(s: &str) -> Vec<u8> {
    let b = s.as_bytes();
    let mut out = Vec::with_capacity(b.len() / 2);
    let nib = |c: u8| -> u8 {
        match c {
            b'0'..=b'9' => c - b'0',
            b'a'..=b'f' => c - b'a' + 10,
            b'A'..=b'F' => c - b'A' + 10,
            _ => 0,
        }
    };
    let mut i = 0;
    while i + 1 < b.len() {
        out.push((nib(b[i]) << 4) | nib(b[i + 1]));
        i += 2;
    }
    out
}

fn hex(data: &[u8]) -> String {
    let mut s = String::with_capacity(data.len() * 2);
    for b in data {
        s.push_str(&format!("{b:02x}"));
    }
    s
}

pub fn create(sc: &Value) -> Result<Machine, String> {
    let mut rt = CoreRuntime::new();
    let base = get_u32(sc, "rom_base", 0xC0000) as usize;
    let size = get_u32(sc, "rom_size", 0x40000) as usize;
    let mut rom = vec![0u8; size];
    if let Some(segs) = sc.get("rom").and_then(|v| v.as_array()) {
        for seg in segs {
            let addr = seg.get(0).and_then(|v| v.as_u64()).unwrap_or(0) as usize;
            let data = unhex(seg.get(1).and_then(|v| v.as_str()).unwrap_or(""));
            if addr < base || addr + data.len() > base + size {
                return Err(format!("rom segment {addr:#x} outside image"));
            }
            rom[addr - base..addr - base + data.len()].copy_from_slice(&data);
        }
    }
    rt.load_rom(&rom, base);
    rt.power_on_reset();
    let mti = get_u32(sc, "mti", 0) as i32;
    let sti = get_u32(sc, "sti", 0) as i32;
    // Replace the timer *in place*: CoreRuntime's IMR/ISR hook holds a raw pointer into this Box.
    *rt.timer = TimerContext::new(mti != 0 || sti != 0, mti, sti);
    rt.state.set_pc(get_u32(sc, "pc", 0xC0100));
    rt.state.set_reg(RegName::S, get_u32(sc, "s", 0xBFF00));
    rt.state.set_reg(RegName::U, get_u32(sc, "u", 0xBFE00));
    rt.state.set_reg(RegName::BA, get_u32(sc, "ba", 0));
    rt.state.set_reg(RegName::I, get_u32(sc, "i", 0));
    rt.state.set_reg(RegName::X, get_u32(sc, "x", 0));
    rt.state.set_reg(RegName::Y, get_u32(sc, "y", 0));
    rt.state.set_reg(RegName::F, get_u32(sc, "f", 0) & 0xFF);
    if get_bool(sc, "strobe", true) {
        if let Some(kb) = rt.keyboard.as_mut() {
            kb.handle_write(0xF0, 0xFF, &mut rt.memory);
            kb.handle_write(0xF1, 0x07, &mut rt.memory);
        }
    }
    // optional initial internal-memory contents [[offset,"hex"],...] (user RAM pattern, BP/PX/PY)
    if let Some(segs) = sc.get("imem").and_then(|v| v.as_array()) {
        for seg in segs {
            let off = seg.get(0).and_then(|v| v.as_u64()).unwrap_or(0) as u32;
            let data = unhex(seg.get(1).and_then(|v| v.as_str()).unwrap_or(""));
            for (i, b) in data.iter().enumerate() {
                let o = off + i as u32;
                if o > 0xFF {
                    return Err(format!("imem offset {o:#x} outside internal memory"));
                }
                rt.memory.write_internal_byte(o, *b);
            }
        }
    }
    // optional keyboard-interrupt enable (public API: TimerContext::set_keyboard_irq_enabled)
    if sc.get("kbirq").is_some() {
        rt.timer
            .set_keyboard_irq_enabled(get_bool(sc, "kbirq", true));
    }
    rt.memory
        .write_internal_byte(ISR, get_u32(sc, "isr0", 0) as u8);
    rt.memory
        .write_internal_byte(IMR, get_u32(sc, "imr0", 0) as u8);
    Ok(Machine {
        rt,
        win_lo: get_u32(sc, "win_lo", 0xBFF00 - 48),
        win_hi: get_u32(sc, "win_hi", 0xBFF00),
        im_lo: get_u32(sc, "im_lo", 0).min(0x100),
        im_hi: get_u32(sc, "im_hi", 0).min(0x100),
    })
}

impl Machine {
    pub fn observe(&self) -> Value {
        let rt = &self.rt;
        let st = &rt.state;
        let pw = if st.is_off() {
            2
        } else if st.is_halted() {
            1
        } else {
            0
        };
        let ext = rt.memory.external_slice();
        let lo = (self.win_lo as usize).min(ext.len());
        let hi = (self.win_hi as usize).min(ext.len());
        let mut o = json!({
            "pc": st.pc() & 0xFFFFF,
            "s": st.get_reg(RegName::S),
            "f": st.get_reg(RegName::F) & 0xFF,
            "ba": st.get_reg(RegName::BA),
            "i": st.get_reg(RegName::I),
            "x": st.get_reg(RegName::X),
            "y": st.get_reg(RegName::Y),
            "u": st.get_reg(RegName::U),
            "imr": rt.memory.read_internal_byte_silent(IMR).unwrap_or(0),
            "isr": rt.memory.read_internal_byte_silent(ISR).unwrap_or(0),
            "pw": pw,
            "ic": rt.instruction_count(),
            "cyc": rt.cycle_count(),
            "irq": rt.timer.irq_total,
            "inint": rt.timer.in_interrupt,
            "pend": rt.timer.irq_pending,
            "lat": rt.timer.key_irq_latched,
            "nm": rt.timer.next_mti,
            "ns": rt.timer.next_sti,
            "src": rt.timer.last_irq_src.clone(),
            "stk": hex(&ext[lo..hi]),
        });
        if self.im_hi > self.im_lo {
            let im: Vec<u8> = (self.im_lo..self.im_hi)
                .map(|a| rt.memory.read_internal_byte_silent(a).unwrap_or(0))
                .collect();
            o["im"] = json!(hex(&im));
        }
        o
    }

    pub fn event(&mut self, kind: &str, arg: &Value) -> Result<(), String> {
        match kind {
            "on_down" => {
                self.rt.press_on_key();
                Ok(())
            }
            "on_up" => {
                self.rt.release_on_key();
                Ok(())
            }
            "key_down" | "key_up" | "key_inject" => {
                let name = arg.as_str().unwrap_or("");
                let code = KeyboardMatrix::matrix_code_for_key_name(name)
                    .ok_or_else(|| format!("unknown key {name}"))?;
                let kb_irq_enabled = self.rt.timer.kb_irq_enabled;
                let rt = &mut self.rt;
                let kb = rt.keyboard.as_mut().ok_or("no keyboard")?;
                match kind {
                    "key_down" => kb.press_matrix_code(code, &mut rt.memory),
                    "key_up" => kb.release_matrix_code(code, &mut rt.memory),
                    _ => {
                        let _ = kb.inject_matrix_event(code, false, &mut rt.memory, kb_irq_enabled);
                    }
                }
                Ok(())
            }
            _ => Err(format!("unknown event {kind}")),
        }
    }

    pub fn step1(&mut self) -> Result<(), String> {
        self.rt.step(1).map_err(|e| format!("{e}"))
    }

    pub fn step_n(&mut self, n: usize) -> Result<(), String> {
        self.rt.step(n).map_err(|e| format!("{e}"))
    }
}

/// machine.split: one scenario (host events ignored), reference run = `step(1)` x total with an observation after
/// every step; then for every partition a fresh machine is driven with one `step(part)` call per part and observed
/// after each call.  The harness only reports; the comparison is done by the Python side (C07).
fn split_one(sc: &Value) -> Value {
    let total = get_u64(sc, "steps", 0) as usize;
    let mut m = match create(sc) {
        Ok(m) => m,
        Err(e) => return json!({"err": format!("setup: {e}")}),
    };
    let mut reference: Vec<Value> = Vec::with_capacity(total);
    for k in 0..total {
        let r = std::panic::catch_unwind(std::panic::AssertUnwindSafe(|| m.step1()));
        match r {
            Ok(Ok(())) => reference.push(m.observe()),
            Ok(Err(e)) => return json!({"err": format!("setup: reference step {k}: {e}")}),
            Err(_) => return json!({"err": format!("setup: reference step {k}: panic")}),
        }
    }
    let mut runs: Vec<Value> = Vec::new();
    if let Some(parts_list) = sc.get("parts").and_then(|v| v.as_array()) {
        for parts in parts_list {
            let parts: Vec<usize> = parts
                .as_array()
                .map(|a| a.iter().map(|x| x.as_u64().unwrap_or(0) as usize).collect())
                .unwrap_or_default();
            let mut mm = match create(sc) {
                Ok(m) => m,
                Err(e) => return json!({"err": format!("setup: {e}")}),
            };
            let mut obs: Vec<Value> = Vec::new();
            let mut error = Value::Null;
            for p in parts.iter() {
                let r = std::panic::catch_unwind(std::panic::AssertUnwindSafe(|| mm.step_n(*p)));
                match r {
                    Ok(Ok(())) => obs.push(mm.observe()),
                    Ok(Err(e)) => {
                        error = json!(format!("step({p}): {e}"));
                        break;
                    }
                    Err(_) => {
                        error = json!(format!("step({p}): panic"));
                        break;
                    }
                }
            }
            runs.push(json!({"parts": parts, "obs": obs, "err": error}));
        }
    }
    json!({"ref": reference, "runs": runs, "err": null})
}

/// Apply the host events scheduled at one boundary; Ok(true) when at least one was applied.
fn apply_events(m: &mut Machine, list: Option<&Vec<&Value>>) -> Result<bool, String> {
    let Some(list) = list else {
        return Ok(false);
    };
    for ev in list {
        let kind = ev.get(1).and_then(|v| v.as_str()).unwrap_or("");
        let arg = ev.get(2).cloned().unwrap_or(Value::Null);
        m.event(kind, &arg)?;
    }
    Ok(!list.is_empty())
}

/// Batched host loop: the host calls `CoreRuntime::step(n)` once per entry of "calls" (host events only between
/// calls).  The state after the j-th instruction of a call cannot be observed from outside, so it is obtained from
/// an identical fresh machine driven through the same earlier calls and then `step(j)`: record k of the result is
/// the observation after (calls 0..p-1 in full, then step(j)) with k = start(p) + j - 1.  Every record is the
/// result of a real run that uses only public calls; the harness adds no semantics.  Same record layout as
/// `run_one`, so the Python monitor reads it as the instruction-by-instruction trace of the batched run.
fn run_parts(sc: &Value, parts: &[usize]) -> Value {
    let steps = get_u64(sc, "steps", 0) as usize;
    let fail = |e: String| json!({"obs0": null, "steps": [], "err": format!("setup: {e}")});
    if parts.iter().any(|n| *n == 0) || parts.iter().sum::<usize>() != steps {
        return fail(format!("calls {parts:?} do not partition {steps} steps"));
    }
    let mut starts: Vec<usize> = Vec::with_capacity(parts.len());
    let mut acc = 0usize;
    for n in parts {
        starts.push(acc);
        acc += n;
    }
    let mut evs: HashMap<usize, Vec<&Value>> = HashMap::new();
    if let Some(list) = sc.get("events").and_then(|v| v.as_array()) {
        for ev in list {
            let k = ev.get(0).and_then(|v| v.as_u64()).unwrap_or(0) as usize;
            if k < steps && !starts.contains(&k) {
                return fail(format!("event at boundary {k} is not at the start of a step(n) call"));
            }
            evs.entry(k).or_default().push(ev);
        }
    }
    let obs0 = match create(sc) {
        Ok(m) => m.observe(),
        Err(e) => return fail(e),
    };
    let mut out: Vec<Value> = Vec::with_capacity(steps);
    let mut error: Value = Value::Null;
    'outer: for (p, n_p) in parts.iter().enumerate() {
        for j in 1..=*n_p {
            let k = starts[p] + j - 1;
            let mut m = match create(sc) {
                Ok(m) => m,
                Err(e) => return fail(e),
            };
            for q in 0..p {
                if let Err(e) = apply_events(&mut m, evs.get(&starts[q])) {
                    return fail(format!("event {e}"));
                }
                let r = std::panic::catch_unwind(std::panic::AssertUnwindSafe(|| m.step_n(parts[q])));
                if !matches!(r, Ok(Ok(()))) {
                    // an earlier call failed although its own prefix runs did not: not a deterministic machine
                    return fail(format!("replay of call {q} (step({})) failed", parts[q]));
                }
            }
            let mut rec = serde_json::Map::new();
            match apply_events(&mut m, evs.get(&starts[p])) {
                Ok(true) if j == 1 => {
                    rec.insert("b".to_string(), m.observe());
                }
                Ok(_) => {}
                Err(e) => return fail(format!("event {e}")),
            }
            let r = std::panic::catch_unwind(std::panic::AssertUnwindSafe(|| m.step_n(j)));
            match r {
                Ok(Ok(())) => {}
                Ok(Err(e)) => {
                    error = json!(format!("step {k}: {e}"));
                    break 'outer;
                }
                Err(_) => {
                    error = json!(format!("step {k}: panic"));
                    break 'outer;
                }
            }
            rec.insert("a".to_string(), m.observe());
            out.push(Value::Object(rec));
        }
    }
    json!({"obs0": obs0, "steps": out, "err": error, "calls": parts})
}

fn run_one(sc: &Value) -> Value {
    if let Some(parts) = sc.get("calls").and_then(|v| v.as_array()) {
        let parts: Vec<usize> = parts
            .iter()
            .map(|x| x.as_u64().unwrap_or(0) as usize)
            .collect();
        return run_parts(sc, &parts);
    }
    let mut m = match create(sc) {
        Ok(m) => m,
        Err(e) => return json!({"obs0": null, "steps": [], "err": format!("setup: {e}")}),
    };
    let steps = get_u64(sc, "steps", 0) as usize;
    let mut evs: HashMap<usize, Vec<&Value>> = HashMap::new();
    if let Some(list) = sc.get("events").and_then(|v| v.as_array()) {
        for ev in list {
            let k = ev.get(0).and_then(|v| v.as_u64()).unwrap_or(0) as usize;
            evs.entry(k).or_default().push(ev);
        }
    }
    let obs0 = m.observe();
    let mut out: Vec<Value> = Vec::with_capacity(steps);
    let mut error: Value = Value::Null;
    // optional "step_errors":"record" (machine.run, single-stepped only): an Err returned by CoreRuntime::step does
    // not end the run; it is attached to that step's record ("err") and the host keeps stepping.  Absent: unchanged.
    let record_errors = get_str(sc, "step_errors", "") == "record";
    for k in 0..steps {
        let mut rec = serde_json::Map::new();
        if let Some(list) = evs.get(&k) {
            for ev in list {
                let kind = ev.get(1).and_then(|v| v.as_str()).unwrap_or("");
                let arg = ev.get(2).cloned().unwrap_or(Value::Null);
                if let Err(e) = m.event(kind, &arg) {
                    return json!({"obs0": obs0, "steps": out, "err": format!("setup: event {e}")});
                }
            }
            rec.insert("b".to_string(), m.observe());
        }
        let r = std::panic::catch_unwind(std::panic::AssertUnwindSafe(|| m.step1()));
        match r {
            Ok(Ok(())) => {}
            Ok(Err(e)) => {
                if record_errors {
                    // the host loop keeps stepping after an error return: the error text travels with the step record
                    rec.insert("err".to_string(), json!(format!("{e}")));
                } else {
                    error = json!(format!("step {k}: {e}"));
                    break;
                }
            }
            Err(_) => {
                error = json!(format!("step {k}: panic"));
                break;
            }
        }
        rec.insert("a".to_string(), m.observe());
        out.push(Value::Object(rec));
    }
    json!({"obs0": obs0, "steps": out, "err": error})
}

pub fn handle(verb: &str, req: &Value, st: &mut State) -> Value {
    match verb {
        "run" => {
            let results: Vec<Value> = req
                .get("scenarios")
                .and_then(|v| v.as_array())
                .map(|a| a.iter().map(run_one).collect())
                .unwrap_or_default();
            json!({"ok": true, "results": results})
        }
        "split" => {
            let results: Vec<Value> = req
                .get("scenarios")
                .and_then(|v| v.as_array())
                .map(|a| a.iter().map(split_one).collect())
                .unwrap_or_default();
            json!({"ok": true, "results": results})
        }
        "new" => match create(req) {
            Ok(m) => {
                st.next_id += 1;
                st.machines.insert(st.next_id, m);
                json!({"ok": true, "id": st.next_id})
            }
            Err(e) => err(e),
        },
        "event" | "step" | "observe" | "drop" => {
            let id = get_u64(req, "id", 0);
            if verb == "drop" {
                st.machines.remove(&id);
                return json!({"ok": true});
            }
            let Some(m) = st.machines.get_mut(&id) else {
                return err(format!("no machine {id}"));
            };
            match verb {
                "event" => {
                    let arg = req.get("arg").cloned().unwrap_or(Value::Null);
                    match m.event(get_str(req, "kind", ""), &arg) {
                        Ok(()) => json!({"ok": true, "obs": m.observe()}),
                        Err(e) => err(e),
                    }
                }
                "step" => {
                    let n = get_u64(req, "n", 1);
                    for k in 0..n {
                        if let Err(e) = m.step1() {
                            return json!({"ok": true, "err": format!("step {k}: {e}"), "obs": m.observe()});
                        }
                    }
                    json!({"ok": true, "err": null, "obs": m.observe()})
                }
                _ => json!({"ok": true, "obs": m.observe()}),
            }
        }
        v if v.starts_with("c07_") => c07x::handle(v, req),
        _ => err(format!("machine.{verb} not implemented")),
    }
}
