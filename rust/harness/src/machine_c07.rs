//! machine_c07 -- C07 extensions of the machine adapter (sub-module of machine.rs; verbs machine.c07_*).
//!
//! Thin adapter over the crate's public API, no verdicts: everything is reported, the Python side
//! (vp_harness/props/c07_machine.py) compares.
//!
//!   machine.c07_mem  {"cases":[case..]}   history/split invariance of `CoreRuntime` under a generated memory map
//!     case = machine.rs scenario (rom segments, registers, "imem") plus
//!        "fill":[[start,len,k]..]           external pattern fill (write_external_slice) before the map
//!        "map":[op..]                       applied in order through the public configuration API:
//!              ["ram",start,size,name] | ["rom",start,size,k,name,[[off,"hex"]..]] | ["card",size,k,[[off,"hex"]..]]
//!              | ["slot",present] | ["remove",name]
//!        "poke":[[addr,"hex"]..]            bus stores (`MemoryImage::store`, 8 bit each) after the map
//!        "steps":total, "points":[n..]
//!     Reference machine R: step(1) x total, observation after every step.  Before step n (n in points) a fresh
//!     machine F_n is built from the same case and receives R's architectural state only: BA,I,X,Y,U,S,F,PC, the
//!     256 internal-memory bytes, external memory (`copy_external_from`) and the data of every data-backed
//!     overlay (overlay re-added with the same public fields and a copy of R's bytes).  F_n then runs total-n
//!     single steps.  -> {"ref":[obs..],"ref_end":end,"runs":[{"n","obs":[..],"end","err"}],"err"}
//!
//!   machine.c07_conv {"cases":[case..]}   converging histories
//!     case = {"base":scenario, "routes":[{"pc":entry,"events":[[k,kind,arg]..]}..], "join_pc", "cap", "tail",
//!             "u_lo","u_hi"}
//!     Every route is run on its own machine (same ROM image, different entry point / host events) with single
//!     steps until PC == join_pc (at most `cap` steps); the full machine state is reported there ("join"), then
//!     `tail` more single steps are run with an observation after each.
//!
//!   machine.c07_entry {"cases":[case..]}  execution entry point x earlier use of the crate's async machinery
//!     case = {"base":scenario, "entry":{"kind":"step"|"async","slice":k,"parts":[n..]}, "history":[op..]}
//!     The probe (fresh machine from `base`, driven through the entry point, one call per part, observation
//!     and call result after every call) is run twice, each time on a brand-new thread (fresh thread-locals,
//!     joined before the verb returns): "ref" with nothing before it, "sub" after the history ops
//!       ["block_on_display",period,frames,ev]   block_on(AsyncDisplayTask::new(period, ev).run_frames(frames))
//!       ["block_on_sleep",cycles]               block_on(sleep_cycles(cycles))
//!       ["block_on_timer",cycles]               block_on(AsyncTimerKeyboardTask(another machine).run_for(cycles))
//!       ["driver",clock,[task..],[budget..]]    AsyncDriver::with_clock + spawn + run_for per budget, then dropped
//!              task = ["display",period,frames,ev] | ["cpu",n] | ["timer",cycles]   (own machine from `base`)
//!       ["runner",slice,[n..]]                  earlier AsyncRuntimeRunner on another machine from `base`, dropped
//!       ["step",n]                              earlier CoreRuntime::step(n) on another machine from `base`
//!     ev = -1 -> DriverEvent::MaxCycles, otherwise DriverEvent::User(ev).
//!     -> {"ref":run,"sub":run,"hist":[note..],"err"}   run = {"calls":[{"res":..,"obs":..}..]}
use super::{create, Machine};
use crate::util::{get_u32, get_u64};
use sc62015_core::llama::opcodes::RegName;
use sc62015_core::memory::MemoryOverlay;
use serde_json::{json, Value};
use std::collections::HashMap;

fn fnv(data: &[u8]) -> String {
    let mut h: u64 = 0xcbf2_9ce4_8422_2325;
    for b in data {
        h ^= *b as u64;
        h = h.wrapping_mul(0x0000_0100_0000_01b3);
    }
    format!("{h:016x}")
}

fn unhex(s: &str) -> Vec<u8> {
    let b = s.as_bytes();
    let nib = |c: u8| -> u8 {
        match c {
            b'0'..=b'9' => c - b'0',
            b'a'..=b'f' => c - b'a' + 10,
            b'A'..=b'F' => c - b'A' + 10,
            _ => 0,
        }
    };
    let mut out = Vec::with_capacity(b.len() / 2);
    let mut i = 0;
    while i + 1 < b.len() {
        out.push((nib(b[i]) << 4) | nib(b[i + 1]));
        i += 2;
    }
    out
}

fn hex(data: &[u8]) -> String {
    let mut s = String::with_capacity(data.len() * 2);
    for b in data {
        s.push_str(&format!("{b:02x}"));
    }
    s
}

/// Pattern data (same formula as c11.rs `pat`; the Python side never needs the values, only that different
/// `k` give different bytes at the same address).
fn pat(k: u32, i: u32) -> u8 {
    (i.wrapping_mul(131)
        .wrapping_add((i >> 8).wrapping_mul(29))
        .wrapping_add((i >> 16).wrapping_mul(7))
        .wrapping_add(k.wrapping_mul(53))
        .wrapping_add(1)
        & 0xFF) as u8
}

fn pat_vec(k: u32, base: u32, len: usize) -> Vec<u8> {
    (0..len as u32).map(|i| pat(k, base.wrapping_add(i))).collect()
}

fn u(v: &Value) -> u64 {
    v.as_u64().unwrap_or(0)
}

fn patch(data: &mut [u8], patches: Option<&Value>) {
    if let Some(list) = patches.and_then(|v| v.as_array()) {
        for p in list {
            let off = p.get(0).map(u).unwrap_or(0) as usize;
            let bytes = unhex(p.get(1).and_then(|v| v.as_str()).unwrap_or(""));
            for (i, b) in bytes.iter().enumerate() {
                if off + i < data.len() {
                    data[off + i] = *b;
                }
            }
        }
    }
}

fn create_mem(case: &Value) -> Result<Machine, String> {
    let mut m = create(case)?;
    let rt = &mut m.rt;
    if let Some(list) = case.get("fill").and_then(|v| v.as_array()) {
        for f in list {
            let (start, len, k) = (u(&f[0]) as u32, u(&f[1]) as usize, u(&f[2]) as u32);
            rt.memory
                .write_external_slice(start as usize, &pat_vec(k, start, len));
        }
    }
    if let Some(list) = case.get("map").and_then(|v| v.as_array()) {
        for op in list {
            let a = op.as_array().ok_or("map op must be an array")?;
            match a.first().and_then(|v| v.as_str()).unwrap_or("") {
                "ram" => rt.add_ram_overlay(u(&a[1]) as u32, u(&a[2]) as usize, a[3].as_str().unwrap_or("ram")),
                "rom" => {
                    let start = u(&a[1]) as u32;
                    let mut data = pat_vec(u(&a[3]) as u32, start, u(&a[2]) as usize);
                    patch(&mut data, a.get(5));
                    rt.add_rom_overlay(start, &data, a[4].as_str().unwrap_or("rom"));
                }
                "card" => {
                    let mut data = pat_vec(u(&a[2]) as u32, 0x40000, u(&a[1]) as usize);
                    patch(&mut data, a.get(3));
                    rt.load_memory_card(&data).map_err(|e| e.to_string())?;
                }
                "slot" => rt
                    .memory
                    .set_memory_card_slot_present(a[1].as_bool().unwrap_or(true)),
                "remove" => rt.remove_overlay(a[1].as_str().unwrap_or("")),
                other => return Err(format!("unknown map op {other}")),
            }
        }
    }
    if let Some(list) = case.get("poke").and_then(|v| v.as_array()) {
        for p in list {
            let addr = u(&p[0]) as u32;
            for (i, b) in unhex(p[1].as_str().unwrap_or("")).iter().enumerate() {
                let _ = rt.memory.store(addr + i as u32, 8, *b as u32);
            }
        }
    }
    rt.clear_overlay_logs();
    Ok(m)
}

const XREGS: [(RegName, &str); 8] = [
    (RegName::BA, "ba"),
    (RegName::I, "i"),
    (RegName::X, "x"),
    (RegName::Y, "y"),
    (RegName::U, "u"),
    (RegName::S, "s"),
    (RegName::F, "f"),
    (RegName::PC, "pc"),
];

fn power(m: &Machine) -> u32 {
    if m.rt.state.is_off() {
        2
    } else if m.rt.state.is_halted() {
        1
    } else {
        0
    }
}

fn imem_bytes(m: &Machine) -> Vec<u8> {
    (0..0x100u32)
        .map(|o| m.rt.memory.read_internal_byte_silent(o).unwrap_or(0))
        .collect()
}

fn mem_obs(m: &Machine, with_reads: bool) -> Value {
    let st = &m.rt.state;
    let mut o = serde_json::Map::new();
    for (r, name) in XREGS.iter() {
        let mut v = st.get_reg(*r);
        if *name == "f" {
            v &= 0xFF;
        }
        if *name == "pc" {
            v &= 0xFFFFF;
        }
        o.insert(name.to_string(), json!(v));
    }
    o.insert("pw".to_string(), json!(power(m)));
    o.insert("im".to_string(), json!(fnv(&imem_bytes(m))));
    if with_reads {
        let log = m.rt.overlay_read_log();
        let rd: Vec<Value> = log
            .iter()
            .take(24)
            .map(|l| json!([l.address, l.overlay]))
            .collect();
        o.insert("rd".to_string(), Value::Array(rd));
    }
    Value::Object(o)
}

fn mem_end(m: &Machine) -> Value {
    let mut ov = serde_json::Map::new();
    for o in m.rt.overlays() {
        if let Some(d) = o.data.as_ref() {
            ov.insert(o.name.clone(), json!(fnv(d)));
        }
    }
    json!({"ext": fnv(m.rt.memory.external_slice()), "ov": ov, "im": hex(&imem_bytes(m))})
}

/// Give `dst` (freshly built from the same case) the architectural state of `src`.
fn transfer(src: &Machine, dst: &mut Machine) -> Result<(), String> {
    dst.rt
        .memory
        .copy_external_from(src.rt.memory.external_slice())
        .map_err(|e| e.to_string())?;
    let mut copies: Vec<MemoryOverlay> = Vec::new();
    for o in src.rt.overlays() {
        if o.read_handler.is_some() || o.write_handler.is_some() {
            continue;
        }
        if let Some(d) = o.data.as_ref() {
            copies.push(MemoryOverlay {
                start: o.start,
                end: o.end,
                name: o.name.clone(),
                data: Some(d.clone()),
                read_only: o.read_only,
                read_handler: None,
                write_handler: None,
                perfetto_thread: o.perfetto_thread.clone(),
            });
        }
    }
    for c in copies {
        dst.rt.memory.remove_overlay(&c.name);
        dst.rt.memory.add_overlay(c);
    }
    // same overlay list (names in lookup order) on both sides, otherwise the transfer is not faithful
    let names = |m: &Machine| -> Vec<String> { m.rt.overlays().iter().map(|o| o.name.clone()).collect() };
    if names(src) != names(dst) {
        return Err(format!("overlay lists differ after transfer: {:?} vs {:?}", names(src), names(dst)));
    }
    for off in 0..0x100u32 {
        if off == 0xFB || off == 0xFC {
            continue;
        }
        let v = src.rt.memory.read_internal_byte_silent(off).unwrap_or(0);
        if dst.rt.memory.read_internal_byte_silent(off) != Some(v) {
            dst.rt.memory.write_internal_byte(off, v);
        }
    }
    for off in [0xFCu32, 0xFB] {
        let v = src.rt.memory.read_internal_byte_silent(off).unwrap_or(0);
        dst.rt.memory.write_internal_byte(off, v);
    }
    for (r, _) in XREGS.iter() {
        let v = src.rt.state.get_reg(*r);
        if *r == RegName::PC {
            dst.rt.state.set_pc(v);
        } else {
            dst.rt.state.set_reg(*r, v);
        }
    }
    dst.rt.clear_overlay_logs();
    Ok(())
}

fn guarded_step(m: &mut Machine) -> Result<(), String> {
    match std::panic::catch_unwind(std::panic::AssertUnwindSafe(|| m.step1())) {
        Ok(Ok(())) => Ok(()),
        Ok(Err(e)) => Err(e),
        Err(_) => Err("panic".to_string()),
    }
}

fn mem_one(case: &Value) -> Value {
    let total = get_u64(case, "steps", 0) as usize;
    let points: Vec<usize> = case
        .get("points")
        .and_then(|v| v.as_array())
        .map(|a| a.iter().map(|x| u(x) as usize).collect())
        .unwrap_or_default();
    let mut r = match create_mem(case) {
        Ok(m) => m,
        Err(e) => return json!({"err": format!("setup: {e}")}),
    };
    let mut fresh: Vec<(usize, Machine)> = Vec::new();
    let mut reference: Vec<Value> = Vec::with_capacity(total);
    let mut ref_err = Value::Null;
    for k in 0..total {
        if points.contains(&k) && power(&r) == 0 {
            let mut f = match create_mem(case) {
                Ok(m) => m,
                Err(e) => return json!({"err": format!("setup: {e}")}),
            };
            if let Err(e) = transfer(&r, &mut f) {
                return json!({"err": format!("setup: transfer: {e}")});
            }
            fresh.push((k, f));
        }
        r.rt.clear_overlay_logs();
        match guarded_step(&mut r) {
            Ok(()) => reference.push(mem_obs(&r, true)),
            Err(e) => {
                ref_err = json!(format!("step {k}: {e}"));
                break;
            }
        }
    }
    let ref_end = mem_end(&r);
    let mut runs: Vec<Value> = Vec::new();
    for (n, mut f) in fresh {
        let mut obs: Vec<Value> = Vec::new();
        let mut error = Value::Null;
        // as far as the reference got (one step further when the reference stopped with an error)
        let limit = (reference.len() + if ref_err.is_null() { 0 } else { 1 }).min(total);
        for k in n..limit {
            match guarded_step(&mut f) {
                Ok(()) => obs.push(mem_obs(&f, false)),
                Err(e) => {
                    error = json!(format!("step {k}: {e}"));
                    break;
                }
            }
        }
        runs.push(json!({"n": n, "obs": obs, "end": mem_end(&f), "err": error}));
    }
    json!({"ref": reference, "ref_end": ref_end, "ref_err": ref_err, "runs": runs, "err": null})
}

// ---------------------------------------------------------------------------------------------------------
// converging histories

fn full_state(m: &Machine, u_lo: u32, u_hi: u32) -> Value {
    let rt = &m.rt;
    let t = &rt.timer;
    let mut o = m.observe();
    let ext = rt.memory.external_slice();
    o["imem"] = json!(hex(&imem_bytes(m)));
    o["ext"] = json!(fnv(ext));
    o["ustk"] = json!(hex(&ext[(u_lo as usize).min(ext.len())..(u_hi as usize).min(ext.len())]));
    o["tm"] = json!({
        "en": t.enabled, "mp": t.mti_period, "sp": t.sti_period, "nm": t.next_mti, "ns": t.next_sti,
        "kbirq": t.kb_irq_enabled, "pend": t.irq_pending, "inint": t.in_interrupt,
        "istk": t.interrupt_stack.len(), "dmasks": hex(&t.delivered_masks), "lat": t.key_irq_latched,
    });
    o["kbfifo"] = json!(rt.keyboard.as_ref().map(|k| k.fifo_len()).unwrap_or(0));
    // host-side bookkeeping: reported for labels only, never part of a verdict
    o["bk"] = json!({"irq_source": t.irq_source, "last_fired": t.last_fired, "last_irq_src": t.last_irq_src,
                     "irq_isr": t.irq_isr, "irq_imr": t.irq_imr});
    o
}

fn conv_one(case: &Value) -> Value {
    let Some(base) = case.get("base") else {
        return json!({"err": "setup: no base"});
    };
    let join_pc = get_u32(case, "join_pc", 0);
    let cap = get_u64(case, "cap", 0) as usize;
    let tail = get_u64(case, "tail", 0) as usize;
    let u_lo = get_u32(case, "u_lo", 0);
    let u_hi = get_u32(case, "u_hi", 0);
    let mut out: Vec<Value> = Vec::new();
    for route in case.get("routes").and_then(|v| v.as_array()).cloned().unwrap_or_default() {
        let mut sc = base.clone();
        sc["pc"] = route.get("pc").cloned().unwrap_or(json!(0));
        let mut m = match create(&sc) {
            Ok(m) => m,
            Err(e) => return json!({"err": format!("setup: {e}")}),
        };
        let mut evs: HashMap<usize, Vec<Value>> = HashMap::new();
        if let Some(list) = route.get("events").and_then(|v| v.as_array()) {
            for ev in list {
                evs.entry(u(&ev[0]) as usize).or_default().push(ev.clone());
            }
        }
        let mut error = Value::Null;
        let mut joined: Option<usize> = None;
        for k in 0..cap {
            if (m.rt.state.pc() & 0xFFFFF) == join_pc {
                joined = Some(k);
                break;
            }
            if let Some(list) = evs.get(&k) {
                for ev in list {
                    let kind = ev.get(1).and_then(|v| v.as_str()).unwrap_or("");
                    let arg = ev.get(2).cloned().unwrap_or(Value::Null);
                    if let Err(e) = m.event(kind, &arg) {
                        return json!({"err": format!("setup: event {e}")});
                    }
                }
            }
            if let Err(e) = guarded_step(&mut m) {
                error = json!(format!("route step {k}: {e}"));
                break;
            }
        }
        let Some(k) = joined else {
            out.push(json!({"join": null, "steps": null, "tail": [], "err": error}));
            continue;
        };
        let join = full_state(&m, u_lo, u_hi);
        let mut obs: Vec<Value> = Vec::with_capacity(tail);
        for j in 0..tail {
            match guarded_step(&mut m) {
                Ok(()) => {
                    let mut o = m.observe();
                    let ext = m.rt.memory.external_slice();
                    o["ustk"] = json!(hex(&ext[(u_lo as usize).min(ext.len())..(u_hi as usize).min(ext.len())]));
                    obs.push(o);
                }
                Err(e) => {
                    error = json!(format!("tail step {j}: {e}"));
                    break;
                }
            }
        }
        out.push(json!({"join": join, "steps": k, "tail": obs, "err": error}));
    }
    json!({"routes": out, "err": null})
}

// ------------------------------------------------------------------------------------------------
// entry point x earlier async-machinery use on the thread

type SharedRt = std::rc::Rc<std::cell::RefCell<sc62015_core::CoreRuntime>>;

fn entry_obs(m: &Machine) -> Value {
    let mut o = m.observe();
    o["imem"] = json!(hex(&imem_bytes(m)));
    o["ext"] = json!(fnv(m.rt.memory.external_slice()));
    o
}

/// Moves the machine's runtime into the Rc<RefCell<..>> the async API wants; `f` gets the shared handle;
/// afterwards the runtime is moved back so that the ordinary observation code can be used.
fn with_shared<T>(m: Machine, f: impl FnOnce(&SharedRt) -> T) -> Result<(Machine, T), String> {
    let Machine { rt, win_lo, win_hi, im_lo, im_hi } = m;
    let rc: SharedRt = std::rc::Rc::new(std::cell::RefCell::new(rt));
    let out = f(&rc);
    let rt = std::rc::Rc::try_unwrap(rc)
        .map_err(|_| "runtime still shared after the run".to_string())?
        .into_inner();
    Ok((Machine { rt, win_lo, win_hi, im_lo, im_hi }, out))
}

fn driver_event(v: Option<&Value>) -> sc62015_core::async_driver::DriverEvent {
    use sc62015_core::async_driver::DriverEvent;
    match v.and_then(|v| v.as_i64()).unwrap_or(-1) {
        n if n < 0 => DriverEvent::MaxCycles,
        n => DriverEvent::User(n as u32),
    }
}

fn entry_probe(base: &Value, entry: &Value) -> Result<Value, String> {
    use sc62015_core::AsyncRuntimeRunner;
    let mut m = create(base)?;
    let kind = entry.get("kind").and_then(|v| v.as_str()).unwrap_or("step").to_string();
    let parts: Vec<usize> = entry
        .get("parts")
        .and_then(|v| v.as_array())
        .map(|a| a.iter().map(|x| u(x) as usize).collect())
        .unwrap_or_default();
    let slice = get_u64(entry, "slice", 1);
    let mut calls: Vec<Value> = Vec::new();
    match kind.as_str() {
        "step" => {
            for p in parts {
                let res = match m.rt.step(p) {
                    Ok(()) => json!("ok"),
                    Err(e) => json!(format!("err: {e}")),
                };
                calls.push(json!({"res": res, "obs": entry_obs(&m)}));
            }
        }
        "async" => {
            // one runner for all parts; the observation needs the runtime back, so the runner is re-created per
            // part only when the case asks for it ("rebuild"); otherwise the state is read through the handle.
            let rebuild = entry.get("rebuild").and_then(|v| v.as_bool()).unwrap_or(false);
            if rebuild {
                for p in parts {
                    let (m2, res) = with_shared(m, |rc| {
                        let mut runner = AsyncRuntimeRunner::new(rc.clone()).with_slice_cycles(slice);
                        let r = runner.run_instructions(p);
                        drop(runner);
                        r
                    })?;
                    m = m2;
                    let res = match res {
                        Ok(s) => json!(["ok", s.instructions_executed, s.cycles_executed]),
                        Err(e) => json!(format!("err: {e}")),
                    };
                    calls.push(json!({"res": res, "obs": entry_obs(&m)}));
                }
            } else {
                let (m2, results) = with_shared(m, |rc| {
                    let mut runner = AsyncRuntimeRunner::new(rc.clone()).with_slice_cycles(slice);
                    let mut out = Vec::new();
                    for p in &parts {
                        let r = runner.run_instructions(*p);
                        let (pc, ic, cyc) = {
                            let rt = rc.borrow();
                            (rt.state.pc() & 0xFFFFF, rt.instruction_count(), rt.cycle_count())
                        };
                        out.push((r, pc, ic, cyc));
                    }
                    drop(runner);
                    out
                })?;
                m = m2;
                let n = results.len();
                for (i, (r, pc, ic, cyc)) in results.into_iter().enumerate() {
                    let res = match r {
                        Ok(s) => json!(["ok", s.instructions_executed, s.cycles_executed]),
                        Err(e) => json!(format!("err: {e}")),
                    };
                    let obs = if i + 1 == n { entry_obs(&m) } else { json!({"pc": pc, "ic": ic, "cyc": cyc}) };
                    calls.push(json!({"res": res, "obs": obs}));
                }
            }
        }
        other => return Err(format!("unknown entry kind {other}")),
    }
    Ok(json!({"calls": calls}))
}

fn entry_history(base: &Value, ops: &[Value]) -> Result<Vec<Value>, String> {
    use sc62015_core::async_driver::{block_on, sleep_cycles, AsyncDriver};
    use sc62015_core::{AsyncCpuHandle, AsyncDisplayTask, AsyncRuntimeRunner, AsyncTimerKeyboardTask};
    let mut notes: Vec<Value> = Vec::new();
    for op in ops {
        let a = op.as_array().ok_or("history op must be an array")?;
        let name = a.first().and_then(|v| v.as_str()).unwrap_or("");
        match name {
            "block_on_display" => {
                let task = AsyncDisplayTask::new(u(&a[1]), driver_event(a.get(3)));
                block_on(task.run_frames(u(&a[2])));
                notes.push(json!([name, "done"]));
            }
            "block_on_sleep" => {
                block_on(sleep_cycles(u(&a[1])));
                notes.push(json!([name, "done"]));
            }
            "block_on_timer" => {
                let m = create(base)?;
                let cycles = u(&a[1]);
                let (m, ()) = with_shared(m, |rc| {
                    let task = AsyncTimerKeyboardTask::new(rc.clone());
                    block_on(task.run_for(cycles));
                })?;
                notes.push(json!([name, m.rt.timer.irq_total]));
            }
            "driver" => {
                let mut driver = AsyncDriver::with_clock(u(&a[1]));
                let mut keep: Vec<SharedRt> = Vec::new();
                for t in a.get(2).and_then(|v| v.as_array()).cloned().unwrap_or_default() {
                    match t.get(0).and_then(|v| v.as_str()).unwrap_or("") {
                        "display" => {
                            let task = AsyncDisplayTask::new(u(&t[1]), driver_event(t.get(3)));
                            let frames = u(&t[2]);
                            driver.spawn(async move { task.run_frames(frames).await });
                        }
                        "cpu" => {
                            let Machine { rt, .. } = create(base)?;
                            let rc: SharedRt = std::rc::Rc::new(std::cell::RefCell::new(rt));
                            keep.push(rc.clone());
                            let n = u(&t[1]) as usize;
                            driver.spawn(async move {
                                let cpu = AsyncCpuHandle::new(rc);
                                let _ = cpu.run_instructions(n, None).await;
                            });
                        }
                        "timer" => {
                            let Machine { rt, .. } = create(base)?;
                            let rc: SharedRt = std::rc::Rc::new(std::cell::RefCell::new(rt));
                            keep.push(rc.clone());
                            let cycles = u(&t[1]);
                            driver.spawn(async move {
                                let task = AsyncTimerKeyboardTask::new(rc);
                                task.run_for(cycles).await;
                            });
                        }
                        other => return Err(format!("unknown driver task {other}")),
                    }
                }
                let mut evs: Vec<Value> = Vec::new();
                for b in a.get(3).and_then(|v| v.as_array()).cloned().unwrap_or_default() {
                    let r = driver.run_for(u(&b));
                    evs.push(json!(format!("{:?}", r.event)));
                }
                drop(driver); // whatever tasks / queued events are left go with it
                drop(keep);
                notes.push(json!([name, evs]));
            }
            "runner" => {
                let m = create(base)?;
                let slice = u(&a[1]);
                let parts: Vec<usize> = a[2].as_array().map(|x| x.iter().map(|v| u(v) as usize).collect()).unwrap_or_default();
                let (_m, okc) = with_shared(m, |rc| {
                    let mut runner = AsyncRuntimeRunner::new(rc.clone()).with_slice_cycles(slice);
                    let mut okc = 0;
                    for p in parts {
                        if runner.run_instructions(p).is_ok() {
                            okc += 1;
                        }
                    }
                    drop(runner);
                    okc
                })?;
                notes.push(json!([name, okc]));
            }
            "step" => {
                let mut m = create(base)?;
                let r = m.rt.step(u(&a[1]) as usize).is_ok();
                notes.push(json!([name, r]));
            }
            other => return Err(format!("unknown history op {other}")),
        }
    }
    Ok(notes)
}

fn on_new_thread(f: impl FnOnce() -> Result<Value, String> + Send + 'static) -> Result<Value, String> {
    let h = std::thread::Builder::new()
        .stack_size(32 << 20)
        .spawn(f)
        .map_err(|e| format!("thread spawn: {e}"))?;
    match h.join() {
        Ok(r) => r,
        Err(_) => Err("panic in case thread".to_string()),
    }
}

fn entry_one(case: &Value) -> Value {
    let Some(base) = case.get("base").cloned() else {
        return json!({"err": "setup: no base"});
    };
    let entry = case.get("entry").cloned().unwrap_or(json!({}));
    let ops: Vec<Value> = case.get("history").and_then(|v| v.as_array()).cloned().unwrap_or_default();
    let (b1, e1) = (base.clone(), entry.clone());
    let reference = match on_new_thread(move || entry_probe(&b1, &e1)) {
        Ok(v) => v,
        Err(e) => return json!({"err": format!("setup: reference: {e}")}),
    };
    let subject = on_new_thread(move || {
        let notes = entry_history(&base, &ops)?;
        let mut r = entry_probe(&base, &entry)?;
        r["hist"] = json!(notes);
        Ok(r)
    });
    match subject {
        Ok(v) => json!({"ref": reference, "sub": v, "err": null}),
        Err(e) => json!({"err": format!("setup: subject: {e}")}),
    }
}

pub fn handle(verb: &str, req: &Value) -> Value {
    let cases = req.get("cases").and_then(|v| v.as_array()).cloned().unwrap_or_default();
    match verb {
        "c07_mem" => json!({"ok": true, "results": cases.iter().map(mem_one).collect::<Vec<_>>()}),
        "c07_conv" => json!({"ok": true, "results": cases.iter().map(conv_one).collect::<Vec<_>>()}),
        "c07_entry" => json!({"ok": true, "results": cases.iter().map(entry_one).collect::<Vec<_>>()}),
        _ => crate::util::err(format!("machine.{verb} not implemented")),
    }
}
