//! c14 -- thin adapter over `sc62015_core::keyboard::KeyboardMatrix` and
//! `sc62015_core::timer::TimerContext::tick_timers_with_keyboard`.
//!
//! `c14.run` takes a batch of histories; each history is executed on a fresh KeyboardMatrix + MemoryImage +
//! TimerContext and every operation's public observations are returned.  No keyboard semantics live here:
//! the oracle is on the Python side (vp_harness/props/c14.py) and works on the returned history.
//!
//! Configuration: `set_press_threshold` / `set_columns_active_high` / `set_repeat_enabled` are the crate's
//! setters; release threshold, repeat delay and repeat interval have no setter, so they are applied the way a
//! snapshot restore applies them: `snapshot_state()` of the fresh matrix with those three fields replaced,
//! passed to `load_snapshot_state()`.  The thresholds the oracle uses are read back from `snapshot_state()`.
//!
//! Operations (arrays, first element is the verb):
//!   ["press", code] ["release", code]        press_matrix_code / release_matrix_code
//!   ["kol", v] ["koh", v]                    handle_write(0xF0 / 0xF1, v)
//!   ["scan"]                                 scan_tick(mem, true)                        -> n events
//!   ["ttick"]                                TimerContext::tick_timers_with_keyboard with the same closure
//!                                            CoreRuntime::tick_timers_and_keyboard uses (lib.rs)
//!   ["wfifo"]                                write_fifo_to_memory(mem, timer.kb_irq_enabled)
//!   ["kil"]                                  handle_read(0xF2)                           -> value
//!   ["inject", code, release]                inject_matrix_event(code, release, mem, timer.kb_irq_enabled)
//!   ["consume"]                              consume_pending_events()
//!   ["irq", enabled]                         TimerContext::set_keyboard_irq_enabled
//!   ["ack"]                                  what RETI from a KEY interrupt does in CoreRuntime: clear ISR bit 2
//!                                            and timer.key_irq_latched
//!   ["iclr"]                                 firmware write clearing ISR bit 2 only
//!   ["bad", kind, x]                         an operation the keyboard rejects: press/release of a matrix code
//!                                            outside the matrix, read/write of a port that is not a keyboard register
//!
//! cfg["kbd_mode"] = ["iq7000"] applies the IQ-7000 device set-up of sc62015/core/src/device.rs
//! (disable_fifo_mirroring + set_keyi_on_any_press(true) + set_raw_kil(true)), ["raw_kil"] only set_raw_kil(true);
//! every observation carries KeyboardMatrix::irq_count().
//!
//! A case with `"cpu": true` runs on a `CoreRuntime` instead (see run_cpu_case): press/release/scan/inject/consume
//! act on `rt.keyboard`, and ["x", code_addr, [bytes], {regs}, {imem pre-writes}, [regs out], [imem out]] executes
//! one generated instruction with `CoreRuntime::step(1)` -- strobe writes and KIL reads travel through the
//! runtime's bus with whatever operand width / start offset / addressing form the Python side chose.
use crate::util::{err, get_bool, get_u32};
use sc62015_core::keyboard::KeyboardMatrix;
use sc62015_core::memory::MemoryImage;
use sc62015_core::timer::TimerContext;
use sc62015_core::CoreRuntime;
use serde_json::{json, Value};

#[derive(Default)]
pub struct State {}

const ISR: u32 = 0xFC;

/// Apply the generated configuration to a fresh matrix (crate setters; release threshold / repeat delay / repeat
/// interval through snapshot_state -> load_snapshot_state, see module comment).
fn configure(kb: &mut KeyboardMatrix, cfg: &Value) {
    kb.set_columns_active_high(get_bool(cfg, "active_high", true));
    {
        let mut snap = kb.snapshot_state();
        if let Some(v) = cfg.get("release_threshold").and_then(|v| v.as_u64()) {
            snap.release_threshold = v as u8;
        }
        if let Some(v) = cfg.get("repeat_delay").and_then(|v| v.as_u64()) {
            snap.repeat_delay = v as u8;
        }
        if let Some(v) = cfg.get("repeat_interval").and_then(|v| v.as_u64()) {
            snap.repeat_interval = v as u8;
        }
        snap.columns_active_high = get_bool(cfg, "active_high", true);
        kb.load_snapshot_state(&snap);
    }
    if let Some(v) = cfg.get("press_threshold").and_then(|v| v.as_u64()) {
        kb.set_press_threshold(v as u8);
    }
    kb.set_repeat_enabled(get_bool(cfg, "repeat_enabled", true));
    // device configuration (what DeviceModel::configure_runtime applies to rt.keyboard, sc62015/core/src/device.rs)
    let (iq, raw) = kbd_mode(cfg);
    if iq {
        kb.disable_fifo_mirroring();
        kb.set_keyi_on_any_press(true);
        kb.set_raw_kil(true);
    } else if raw {
        kb.set_raw_kil(true);
    }
}

/// cfg["kbd_mode"]: list of flags -- "iq7000" (the IQ-7000 device set-up) / "raw_kil".
fn kbd_mode(cfg: &Value) -> (bool, bool) {
    let mut iq = false;
    let mut raw = false;
    if let Some(l) = cfg.get("kbd_mode").and_then(|v| v.as_array()) {
        for f in l {
            match f.as_str().unwrap_or("") {
                "iq7000" => iq = true,
                "raw_kil" => raw = true,
                _ => {}
            }
        }
    }
    (iq, raw)
}

/// An operation the keyboard has to reject: a matrix code outside the matrix, a port that is not a keyboard
/// register.  Returns whether the crate reported the rejection (where it reports anything).
fn bad_op(kb: &mut KeyboardMatrix, mem: &mut MemoryImage, kind: &str, x: u64) -> bool {
    match kind {
        "port-read" => kb.handle_read(0xF3 + (x % 10) as u32, mem).is_none(),
        "port-write" => {
            let off = if x & 16 != 0 { 0xE0 + (x % 16) as u32 } else { 0xF3 + (x % 10) as u32 };
            !kb.handle_write(off, ((x * 37) & 0xFF) as u8, mem)
        }
        "release" | "inject" => {
            kb.release_matrix_code(128 + (x % 128) as u8, mem);
            true
        }
        _ => {
            kb.press_matrix_code(128 + (x % 128) as u8, mem);
            true
        }
    }
}

fn run_case(case: &Value) -> Value {
    let cfg = case.get("cfg").cloned().unwrap_or(json!({}));
    let mut kb = KeyboardMatrix::new();
    let mut mem = MemoryImage::new();
    let mti_period = get_u32(&cfg, "mti_period", 1) as i32;
    let mut timer = TimerContext::new(true, mti_period, 0);
    timer.set_keyboard_irq_enabled(get_bool(&cfg, "irq_enabled", true));

    configure(&mut kb, &cfg);
    let repeat_enabled = get_bool(&cfg, "repeat_enabled", true);

    let snap = kb.snapshot_state();
    let init = json!({
        "kol": snap.kol, "koh": snap.koh,
        "press_threshold": snap.press_threshold, "release_threshold": snap.release_threshold,
        "repeat_delay": snap.repeat_delay, "repeat_interval": snap.repeat_interval,
        "active_high": snap.columns_active_high, "capacity": snap.fifo.len(),
        "repeat_enabled": repeat_enabled,
        "fifo": kb.fifo_snapshot(), "isr": mem.read_internal_byte(ISR).unwrap_or(0),
        "irq_enabled": timer.keyboard_irq_enabled(),
        "latched": timer.key_irq_latched,
        "wake_on_press": kbd_mode(&cfg).0, "tick_events": !kbd_mode(&cfg).0, "raw_kil": kbd_mode(&cfg).0 || kbd_mode(&cfg).1,
        "irq_count": kb.irq_count(),
    });

    let mut cycle: u64 = 0;
    let mut obs: Vec<Value> = Vec::new();
    let empty: Vec<Value> = Vec::new();
    let ops = case.get("ops").and_then(|v| v.as_array()).unwrap_or(&empty);
    for op in ops {
        let a = match op.as_array() {
            Some(a) if !a.is_empty() => a,
            _ => {
                obs.push(json!({"error": "bad op"}));
                continue;
            }
        };
        let verb = a[0].as_str().unwrap_or("");
        let arg = |i: usize| a.get(i).and_then(|v| v.as_u64()).unwrap_or(0);
        let argb = |i: usize| a.get(i).map(|v| v.as_bool().unwrap_or(v.as_u64().unwrap_or(0) != 0)).unwrap_or(false);
        let mut ret = json!(null);
        match verb {
            "press" => kb.press_matrix_code(arg(1) as u8, &mut mem),
            "release" => kb.release_matrix_code(arg(1) as u8, &mut mem),
            "kol" => {
                kb.handle_write(0xF0, arg(1) as u8, &mut mem);
            }
            "koh" => {
                kb.handle_write(0xF1, arg(1) as u8, &mut mem);
            }
            "scan" => {
                let n = kb.scan_tick(&mut mem, true);
                ret = json!({"n": n});
            }
            "ttick" => {
                cycle += 1;
                let kb_irq_enabled = timer.kb_irq_enabled;
                let kbr = &mut kb;
                let (mti, _sti, n, _stats) = timer.tick_timers_with_keyboard(
                    &mut mem,
                    cycle,
                    |m| {
                        // Same closure as CoreRuntime::tick_timers_and_keyboard (sc62015/core/src/lib.rs).
                        let events = kbr.scan_tick(m, true);
                        let fifo_pending = kbr.fifo_len() > 0;
                        if events > 0 || (kb_irq_enabled && fifo_pending) {
                            kbr.write_fifo_to_memory(m, kb_irq_enabled);
                        }
                        (
                            events,
                            events > 0 || (kb_irq_enabled && fifo_pending),
                            Some(kbr.telemetry()),
                        )
                    },
                    None,
                    None,
                );
                ret = json!({"n": n, "mti": mti});
            }
            "wfifo" => {
                let en = timer.kb_irq_enabled;
                kb.write_fifo_to_memory(&mut mem, en);
            }
            "kil" => {
                let v = kb.handle_read(0xF2, &mut mem);
                ret = json!({"kil": v});
            }
            "inject" => {
                let en = timer.kb_irq_enabled;
                let n = kb.inject_matrix_event(arg(1) as u8, argb(2), &mut mem, en);
                ret = json!({"n": n});
            }
            "consume" => kb.consume_pending_events(),
            "bad" => {
                let kind = a.get(1).and_then(|v| v.as_str()).unwrap_or("");
                let rejected = bad_op(&mut kb, &mut mem, kind, arg(2));
                ret = json!({"rejected": rejected});
            }
            "irq" => timer.set_keyboard_irq_enabled(argb(1)),
            "ack" => {
                let isr = mem.read_internal_byte(ISR).unwrap_or(0);
                mem.write_internal_byte(ISR, isr & !0x04);
                timer.key_irq_latched = false;
            }
            "iclr" => {
                let isr = mem.read_internal_byte(ISR).unwrap_or(0);
                mem.write_internal_byte(ISR, isr & !0x04);
            }
            _ => {
                obs.push(json!({"error": format!("unknown op {verb}")}));
                continue;
            }
        }
        obs.push(json!({
            "ret": ret,
            "fifo": kb.fifo_snapshot(),
            "isr": mem.read_internal_byte(ISR).unwrap_or(0),
            "irq_enabled": timer.keyboard_irq_enabled(),
            "latched": timer.key_irq_latched,
            "irq_count": kb.irq_count(),
        }));
    }
    json!({"init": init, "obs": obs})
}

/// CPU flavour ("cpu": true in the case): the same keyboard inside a `CoreRuntime`; strobe writes and key-input
/// reads are *instructions* executed by `CoreRuntime::step` (op "x"), so they travel through the runtime's bus
/// (operand width, start offset and addressing form are chosen by the Python side).  The runtime keeps its
/// default timer (disabled): an instruction performs no scan tick of its own, ticks are explicit `scan` ops on
/// `rt.keyboard` or the tick the crate performs inside a KIL read.
///   ["x", code_addr, [byte..], {reg: value..}, {imem_offset: value..}, [reg_name..], [imem_offset..]]
///        pre-write IMEM bytes (pointer registers BP/PX/PY, scratch source bytes) with write_internal_byte,
///        copy the code, set registers + PC, step(1); returns the named registers and IMEM bytes
///        (read_internal_byte_silent) afterwards.
fn run_cpu_case(case: &Value) -> Value {
    let cfg = case.get("cfg").cloned().unwrap_or(json!({}));
    let mut rt = CoreRuntime::new();
    rt.timer.set_keyboard_irq_enabled(get_bool(&cfg, "irq_enabled", true));
    let repeat_enabled = get_bool(&cfg, "repeat_enabled", true);
    match rt.keyboard.as_mut() {
        Some(kb) => configure(kb, &cfg),
        None => return json!({"error": "CoreRuntime::new() has no keyboard"}),
    }
    let init = {
        let kb = rt.keyboard.as_ref().unwrap();
        let snap = kb.snapshot_state();
        json!({
            "kol": snap.kol, "koh": snap.koh,
            "press_threshold": snap.press_threshold, "release_threshold": snap.release_threshold,
            "repeat_delay": snap.repeat_delay, "repeat_interval": snap.repeat_interval,
            "active_high": snap.columns_active_high, "capacity": snap.fifo.len(),
            "repeat_enabled": repeat_enabled,
            "fifo": kb.fifo_snapshot(), "isr": Value::Null, "irq_enabled": Value::Null,
            "wake_on_press": kbd_mode(&cfg).0, "tick_events": !kbd_mode(&cfg).0,
            "raw_kil": kbd_mode(&cfg).0 || kbd_mode(&cfg).1,
            "irq_count": kb.irq_count(),
        })
    };
    let mut obs: Vec<Value> = Vec::new();
    let empty: Vec<Value> = Vec::new();
    let ops = case.get("ops").and_then(|v| v.as_array()).unwrap_or(&empty);
    for op in ops {
        let a = match op.as_array() {
            Some(a) if !a.is_empty() => a,
            _ => {
                obs.push(json!({"error": "bad op"}));
                continue;
            }
        };
        let verb = a[0].as_str().unwrap_or("");
        let arg = |i: usize| a.get(i).and_then(|v| v.as_u64()).unwrap_or(0);
        let argb = |i: usize| a.get(i).map(|v| v.as_bool().unwrap_or(v.as_u64().unwrap_or(0) != 0)).unwrap_or(false);
        let mut ret = json!(null);
        match verb {
            "press" => rt.keyboard.as_mut().unwrap().press_matrix_code(arg(1) as u8, &mut rt.memory),
            "release" => rt.keyboard.as_mut().unwrap().release_matrix_code(arg(1) as u8, &mut rt.memory),
            "scan" => {
                let n = rt.keyboard.as_mut().unwrap().scan_tick(&mut rt.memory, true);
                ret = json!({"n": n});
            }
            "inject" => {
                let en = rt.timer.kb_irq_enabled;
                let n = rt.keyboard.as_mut().unwrap().inject_matrix_event(arg(1) as u8, argb(2), &mut rt.memory, en);
                ret = json!({"n": n});
            }
            "consume" => rt.keyboard.as_mut().unwrap().consume_pending_events(),
            "bad" => {
                let kind = a.get(1).and_then(|v| v.as_str()).unwrap_or("");
                let rejected = bad_op(rt.keyboard.as_mut().unwrap(), &mut rt.memory, kind, arg(2));
                ret = json!({"rejected": rejected});
            }
            "x" => {
                let code_addr = arg(1) as usize;
                let code: Vec<u8> = a
                    .get(2)
                    .and_then(|v| v.as_array())
                    .map(|l| l.iter().map(|b| b.as_u64().unwrap_or(0) as u8).collect())
                    .unwrap_or_default();
                if let Some(pre) = a.get(4).and_then(|v| v.as_object()) {
                    for (off, val) in pre {
                        if let Ok(o) = off.parse::<u32>() {
                            rt.memory.write_internal_byte(o & 0xFF, val.as_u64().unwrap_or(0) as u8);
                        }
                    }
                }
                rt.memory.write_external_slice(code_addr, &code);
                if let Some(regs) = a.get(3).and_then(|v| v.as_object()) {
                    for (name, val) in regs {
                        rt.set_reg(name, val.as_u64().unwrap_or(0) as u32);
                    }
                }
                rt.set_reg("PC", code_addr as u32);
                match rt.step(1) {
                    Ok(()) => {
                        let mut regs = serde_json::Map::new();
                        if let Some(names) = a.get(5).and_then(|v| v.as_array()) {
                            for n in names {
                                if let Some(n) = n.as_str() {
                                    regs.insert(n.to_string(), json!(rt.get_reg(n)));
                                }
                            }
                        }
                        let mut bytes: Vec<Value> = Vec::new();
                        if let Some(offs) = a.get(6).and_then(|v| v.as_array()) {
                            for o in offs {
                                let o = o.as_u64().unwrap_or(0) as u32 & 0xFF;
                                bytes.push(json!(rt.memory.read_internal_byte_silent(o).unwrap_or(0)));
                            }
                        }
                        ret = json!({"regs": regs, "imem": bytes, "pc": rt.get_reg("PC"),
                                     "len": code.len()});
                    }
                    Err(e) => {
                        obs.push(json!({"error": format!("step failed: {e}")}));
                        continue;
                    }
                }
            }
            _ => {
                obs.push(json!({"error": format!("unknown cpu op {verb}")}));
                continue;
            }
        }
        let kb = rt.keyboard.as_ref().unwrap();
        obs.push(json!({
            "ret": ret,
            "fifo": kb.fifo_snapshot(),
            "isr": Value::Null,
            "irq_enabled": rt.timer.keyboard_irq_enabled(),
            "latched": rt.timer.key_irq_latched,
            "irq_count": kb.irq_count(),
        }));
    }
    json!({"init": init, "obs": obs})
}

pub fn handle(verb: &str, req: &Value, _st: &mut State) -> Value {
    match verb {
        "run" => {
            let empty: Vec<Value> = Vec::new();
            let cases = req.get("cases").and_then(|v| v.as_array()).unwrap_or(&empty);
            let mut results: Vec<Value> = Vec::with_capacity(cases.len());
            for c in cases {
                let cpu = get_bool(c, "cpu", false);
                let r = std::panic::catch_unwind(std::panic::AssertUnwindSafe(|| {
                    if cpu {
                        run_cpu_case(c)
                    } else {
                        run_case(c)
                    }
                }));
                match r {
                    Ok(v) => results.push(v),
                    Err(e) => {
                        let msg = if let Some(s) = e.downcast_ref::<&str>() {
                            s.to_string()
                        } else if let Some(s) = e.downcast_ref::<String>() {
                            s.clone()
                        } else {
                            "panic".to_string()
                        };
                        results.push(json!({"panic": msg}));
                    }
                }
            }
            json!({"ok": true, "results": results})
        }
        _ => err(format!("unknown c14 verb {verb}")),
    }
}
