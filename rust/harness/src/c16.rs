//! c16 -- machine driver for the snapshot property: `CoreRuntime` from a ROM image + config, host events,
//! step, observe, `save_snapshot` to a path, `load_snapshot` from a path into a fresh runtime.
//!
//! Thin adapter: everything goes through the crate's public API (`CoreRuntime::{new, load_rom,
//! power_on_reset, step, save_snapshot, load_snapshot, press_on_key, release_on_key, get_reg, set_reg}`,
//! `KeyboardMatrix::{press_matrix_code, release_matrix_code, fifo_snapshot, snapshot_state}`,
//! `LcdHal::export_snapshot`, `MemoryImage::{load, internal_slice, external_slice}` and the `pub` fields of
//! `TimerContext`).  Observation never changes the machine: the memory access counters touched by
//! `MemoryImage::load` are put back with `set_memory_counts`.
//!
//! Request: {"cmd":"c16.ops","ops":[{"op":...}, ...]}  ->  {"ok":true,"results":[...]} (one result per op).
use crate::util::{err, get_bool, get_str, get_u32, get_u64};
use sc62015_core::llama::state::PowerState;
use sc62015_core::snapshot::{pack_registers, unpack_registers};
use sc62015_core::{collect_registers, CoreRuntime, TimerContext};
use serde_json::{json, Map, Value};
use std::collections::HashMap;

pub struct Machine {
    rt: CoreRuntime,
    windows: Vec<(String, u32, u32)>,
    /// bus ranges read at snapshot points / right after a load (region boundaries)
    probes: Vec<(String, u32, u32)>,
    /// (offset, stride) of the strided bus sample over the whole external space; stride 0 = none
    sweep: (u32, u32),
}

/// LCD controller windows: never probed (kept identical to the Python driver's probe set).
const LCD_WINDOWS: [(u32, u32); 2] = [(0x02000, 0x02FFF), (0x0A000, 0x0AFFF)];
const SWEEP_REGIONS: [(&str, u32, u32); 5] = [
    ("low", 0x00000, 0x3FFFF),
    ("card", 0x40000, 0x4FFFF),
    ("mid", 0x50000, 0xB7FFF),
    ("ram", 0xB8000, 0xBFFFF),
    ("rom", 0xC0000, 0xFFFFF),
];

#[derive(Default)]
pub struct State {
    machines: HashMap<String, Machine>,
}

fn hex(bytes: &[u8]) -> String {
    const T: &[u8; 16] = b"0123456789abcdef";
    let mut s = String::with_capacity(bytes.len() * 2);
    for b in bytes {
        s.push(T[(b >> 4) as usize] as char);
        s.push(T[(b & 15) as usize] as char);
    }
    s
}

fn unhex(s: &str) -> Vec<u8> {
    let b = s.as_bytes();
    let mut out = Vec::with_capacity(b.len() / 2);
    let nib = |c: u8| -> u8 {
        match c {
            b'0'..=b'9' => c - b'0',
            b'a'..=b'f' => c - b'a' + 10,
            b'A'..=b'F' => c - b'A' + 10,
            _ => 0,
        }
    };
    let mut i = 0;
    while i + 1 < b.len() {
        out.push((nib(b[i]) << 4) | nib(b[i + 1]));
        i += 2;
    }
    out
}

fn fnv64(bytes: &[u8]) -> String {
    let mut h: u64 = 0xcbf2_9ce4_8422_2325;
    for b in bytes {
        h ^= *b as u64;
        h = h.wrapping_mul(0x0000_0100_0000_01b3);
    }
    format!("{h:016x}")
}

fn power_name(p: PowerState) -> &'static str {
    match p {
        PowerState::Running => "running",
        PowerState::Halted => "halted",
        PowerState::Off => "off",
    }
}

fn new_machine(req: &Value) -> Result<Machine, String> {
    let cfg = req.get("cfg").cloned().unwrap_or_else(|| json!({}));
    let mut rt = CoreRuntime::new();
    let mut image = vec![0u8; 0x40000];
    if let Some(chunks) = req.get("rom").and_then(|v| v.as_array()) {
        for ch in chunks {
            let addr = ch.get(0).and_then(|v| v.as_u64()).unwrap_or(0) as usize;
            let data = unhex(ch.get(1).and_then(|v| v.as_str()).unwrap_or(""));
            if addr < 0xC0000 || addr + data.len() > 0x100000 {
                return Err(format!("rom chunk out of range: {addr:#x}+{}", data.len()));
            }
            image[addr - 0xC0000..addr - 0xC0000 + data.len()].copy_from_slice(&data);
        }
    }
    if get_str(&cfg, "map", "bare") == "pce500" {
        sc62015_core::pce500::load_pce500_rom_window(&mut rt, &image)
            .map_err(|e| format!("load_pce500_rom_window: {e}"))?;
    } else {
        rt.load_rom(&image, 0xC0000);
    }
    if let Some(card) = cfg.get("card") {
        let size = get_u64(card, "size", 0) as usize;
        if size > 0 {
            let fill = get_u32(card, "fill", 0) as u8;
            let data: Vec<u8> = (0..size).map(|i| fill.wrapping_add(i as u8)).collect();
            rt.load_memory_card(&data).map_err(|e| format!("load_memory_card: {e}"))?;
        }
    }
    rt.power_on_reset();
    if let Some(t) = cfg.get("timer") {
        let enabled = get_bool(t, "enabled", false);
        let mti = get_u64(t, "mti", 0) as i32;
        let sti = get_u64(t, "sti", 0) as i32;
        // In-place assignment keeps the boxed address the IMR/ISR hook points at.
        *rt.timer = TimerContext::new(enabled, mti, sti);
    }
    if let Some(regs) = cfg.get("regs").and_then(|v| v.as_object()) {
        for (k, v) in regs {
            rt.set_reg(k, v.as_u64().unwrap_or(0) as u32);
        }
    }
    let ranges = |key: &str| -> Vec<(String, u32, u32)> {
        let mut out = Vec::new();
        if let Some(ws) = cfg.get(key).and_then(|v| v.as_array()) {
            for w in ws {
                let name = w.get(0).and_then(|v| v.as_str()).unwrap_or("w").to_string();
                let start = w.get(1).and_then(|v| v.as_i64()).unwrap_or(0).max(0) as u32;
                let len = w.get(2).and_then(|v| v.as_u64()).unwrap_or(0) as u32;
                out.push((name, start, len));
            }
        }
        out
    };
    let windows = ranges("windows");
    let probes = ranges("probes");
    let sweep = cfg
        .get("sweep")
        .and_then(|v| v.as_array())
        .map(|a| {
            (
                a.first().and_then(|v| v.as_u64()).unwrap_or(0) as u32,
                a.get(1).and_then(|v| v.as_u64()).unwrap_or(0) as u32,
            )
        })
        .unwrap_or((0, 0));
    Ok(Machine { rt, windows, probes, sweep })
}

/// Bus reads around region boundaries + strided sample per region, hashed (see c16_py.PyMachine.bus_probes).
fn bus_probes(m: &Machine, out: &mut Map<String, Value>) {
    let r = m.rt.memory.memory_read_count();
    let w = m.rt.memory.memory_write_count();
    let lcd = |a: u32| LCD_WINDOWS.iter().any(|(lo, hi)| a >= *lo && a <= *hi);
    for (name, start, len) in &m.probes {
        let mut bytes = Vec::with_capacity(*len as usize);
        let end = (*start + *len).min(0x100000);
        for a in *start..end {
            if !lcd(a) {
                bytes.push(m.rt.memory.load(a, 8).unwrap_or(0) as u8);
            }
        }
        out.insert(name.clone(), json!(fnv64(&bytes)));
    }
    let (off, stride) = m.sweep;
    if stride > 0 {
        for (name, lo, hi) in SWEEP_REGIONS.iter() {
            let mut bytes = Vec::new();
            let mut a = lo + ((off + stride - (lo % stride)) % stride);
            while a <= *hi {
                if !lcd(a) {
                    bytes.push(m.rt.memory.load(a, 8).unwrap_or(0) as u8);
                }
                a += stride;
            }
            out.insert(format!("bus:sweep-{name}"), json!(fnv64(&bytes)));
        }
    }
    m.rt.memory.set_memory_counts(r, w);
    m.rt.memory.clear_overlay_logs();
}

fn apply_events(m: &mut Machine, evs: Option<&Value>) {
    let Some(list) = evs.and_then(|v| v.as_array()) else {
        return;
    };
    for ev in list {
        let kind = ev.get(0).and_then(|v| v.as_str()).unwrap_or("");
        match kind {
            "press" | "release" => {
                let code = ev.get(2).and_then(|v| v.as_u64()).unwrap_or(0) as u8;
                let rt = &mut m.rt;
                if let Some(kb) = rt.keyboard.as_mut() {
                    if kind == "press" {
                        kb.press_matrix_code(code, &mut rt.memory);
                    } else {
                        kb.release_matrix_code(code, &mut rt.memory);
                    }
                }
            }
            "on_press" => m.rt.press_on_key(),
            "on_release" => m.rt.release_on_key(),
            _ => {}
        }
    }
}

fn peek(m: &Machine, start: u32, len: u32) -> Vec<u8> {
    let r = m.rt.memory.memory_read_count();
    let w = m.rt.memory.memory_write_count();
    let mut out = Vec::with_capacity(len as usize);
    for i in 0..len {
        out.push(m.rt.memory.load(start + i, 8).unwrap_or(0) as u8);
    }
    m.rt.memory.set_memory_counts(r, w);
    m.rt.memory.clear_overlay_logs();
    out
}

fn observe(m: &Machine) -> Value {
    let rt = &m.rt;
    let mut regs = Map::new();
    for name in ["PC", "BA", "I", "X", "Y", "U", "S", "F"] {
        regs.insert(name.to_string(), json!(rt.get_reg(name)));
    }
    let mut win = Map::new();
    for (name, start, len) in &m.windows {
        win.insert(name.clone(), json!(hex(&peek(m, *start, *len))));
    }
    let mut lcd = json!(null);
    if let Some(l) = rt.lcd.as_ref() {
        let (meta, payload) = l.export_snapshot();
        let mut chips = Vec::new();
        if let Some(arr) = meta.get("chips").and_then(|v| v.as_array()) {
            for c in arr {
                chips.push(json!({
                    "on": c.get("on").cloned().unwrap_or(Value::Null),
                    "start_line": c.get("start_line").cloned().unwrap_or(Value::Null),
                    "page": c.get("page").cloned().unwrap_or(Value::Null),
                    "y_address": c.get("y_address").cloned().unwrap_or(Value::Null),
                }));
            }
        }
        lcd = json!({"chips": chips, "vram": fnv64(&payload)});
    }
    let mut kb = json!(null);
    if let Some(k) = rt.keyboard.as_ref() {
        let snap = k.snapshot_state();
        let mut pressed = snap.pressed_keys.clone();
        pressed.sort();
        kb = json!({"fifo": k.fifo_snapshot(), "pressed": pressed});
    }
    let t = &rt.timer;
    // Write protection is memory behaviour: report the protected address set in a canonical form
    // (sorted, overlapping/adjacent ranges merged) so that equivalent representations compare equal.
    let mut ro: Vec<(u32, u32)> = rt.memory.readonly_ranges().to_vec();
    ro.sort();
    let mut merged: Vec<(u32, u32)> = Vec::new();
    for (s0, e0) in ro {
        if let Some(last) = merged.last_mut() {
            if s0 <= last.1.saturating_add(1) {
                if e0 > last.1 {
                    last.1 = e0;
                }
                continue;
            }
        }
        merged.push((s0, e0));
    }
    json!({
        "memmap": {"readonly": merged},
        "regs": regs,
        "imem": hex(rt.memory.internal_slice()),
        "win": win,
        "lcd": lcd,
        "kb": kb,
        "power": power_name(rt.state.power_state()),
        "cycles": rt.cycle_count(),
        "instr": rt.instruction_count(),
        "irq": {"total": t.irq_total, "KEY": t.irq_key, "MTI": t.irq_mti, "STI": t.irq_sti,
                 "last": [t.last_irq_src, t.last_irq_pc, t.last_irq_vector]},
    })
}

/// Diagnostic probes (never part of a verdict; used to name what a restored machine is missing).
fn diag(m: &Machine) -> Value {
    let rt = &m.rt;
    let t = &rt.timer;
    let temps: Map<String, Value> = {
        let mut v: Vec<(String, u32)> = collect_registers(&rt.state)
            .into_iter()
            .filter(|(k, v)| k.starts_with("TEMP") && *v != 0)
            .collect();
        v.sort();
        v.into_iter().map(|(k, v)| (k, json!(v))).collect()
    };
    let kb_state = rt
        .keyboard
        .as_ref()
        .and_then(|k| serde_json::to_string(&{
            let mut s = k.snapshot_state();
            s.pressed_keys.sort();
            let mut ks: Vec<_> = s.key_states.iter().filter(|(_, v)| v.pressed || v.debounced || v.press_ticks != 0 || v.release_ticks != 0 || v.repeat_ticks != 0)
                .map(|(k, v)| format!("{k}:{}:{}:{}:{}:{}", v.pressed, v.debounced, v.press_ticks, v.release_ticks, v.repeat_ticks)).collect();
            ks.sort();
            json!({"kol": s.kol, "koh": s.koh, "fifo_len": s.fifo_len, "fifo": s.fifo,
                   "head": s.head, "tail": s.tail, "irq_count": s.irq_count, "strobe_count": s.strobe_count,
                   "pressed": s.pressed_keys, "keys": ks, "hist": s.column_histogram,
                   "thresholds": [s.press_threshold, s.release_threshold, s.repeat_delay, s.repeat_interval],
                   "active_high": s.columns_active_high, "scan_enabled": s.scan_enabled,
                   "kil_reads": s.kil_read_count})
        }).ok())
        .unwrap_or_default();
    let mut card = String::new();
    for ov in rt.overlays() {
        if let Some(d) = ov.data.as_ref() {
            card.push_str(&format!("{}:{};", ov.name, fnv64(d)));
        }
    }
    let mut d = json!({
        "power_state": power_name(rt.state.power_state()),
        "timer_enabled": t.enabled,
        "mti_period": t.mti_period,
        "sti_period": t.sti_period,
        "next_mti": t.next_mti,
        "next_sti": t.next_sti,
        "kb_irq_enabled": t.kb_irq_enabled,
        "irq_pending": t.irq_pending,
        "irq_source": t.irq_source,
        "irq_imr_mirror": t.irq_imr,
        "irq_isr_mirror": t.irq_isr,
        "in_interrupt": t.in_interrupt,
        "interrupt_stack": t.interrupt_stack,
        "next_interrupt_id": t.next_interrupt_id,
        "key_irq_latched": t.key_irq_latched,
        "delivered_masks": t.delivered_masks,
        "call_depth": rt.state.call_depth(),
        "call_sub_level": rt.state.call_sub_level(),
        // executor bookkeeping per call frame (not part of the bundle): page recorded by near CALLs, width of
        // the innermost tracked return address
        "call_frames": json!([rt.state.call_page_depth(), rt.state.peek_call_page(),
                              rt.state.peek_call_return_width()]),
        "temps": temps,
        "kb_state": kb_state,
        "overlay_data": card,
        "fast_mode": rt.fast_mode,
        "ext_hash": fnv64(rt.memory.external_slice()),
    });
    bus_probes(m, d.as_object_mut().unwrap());
    d
}

fn step_once(m: &mut Machine) -> Option<String> {
    match m.rt.step(1) {
        Ok(()) => None,
        Err(e) => Some(format!("{e}")),
    }
}

fn events_at<'a>(evs: Option<&'a Value>, j: u64) -> Option<&'a Value> {
    evs.and_then(|e| e.get(j.to_string()))
}

fn do_op(op: &Value, st: &mut State) -> Value {
    let kind = get_str(op, "op", "");
    let id = get_str(op, "id", "").to_string();
    match kind {
        "new" => match new_machine(op) {
            Ok(m) => {
                st.machines.insert(id, m);
                json!({"ok": true})
            }
            Err(e) => err(e),
        },
        "drop" => {
            st.machines.remove(&id);
            json!({"ok": true})
        }
        "drop_all" => {
            st.machines.clear();
            json!({"ok": true})
        }
        "pack" => {
            let mut regs: HashMap<String, u32> = HashMap::new();
            if let Some(o) = op.get("regs").and_then(|v| v.as_object()) {
                for (k, v) in o {
                    regs.insert(k.clone(), v.as_u64().unwrap_or(0) as u32);
                }
            }
            json!({"ok": true, "blob": hex(&pack_registers(&regs))})
        }
        "unpack" => match unpack_registers(&unhex(get_str(op, "blob", ""))) {
            Ok(r) => json!({"ok": true, "regs": r}),
            Err(e) => json!({"ok": true, "err": format!("{e}")}),
        },
        _ => {
            let Some(m) = st.machines.get_mut(&id) else {
                return err(format!("no machine {id}"));
            };
            match kind {
                "events" => {
                    apply_events(m, op.get("ev"));
                    json!({"ok": true})
                }
                "step" => json!({"ok": true, "err": step_once(m)}),
                "obs" => json!({"ok": true, "obs": observe(m)}),
                "diag" => json!({"ok": true, "diag": diag(m)}),
                "peek" => {
                    let start = get_u32(op, "start", 0);
                    let len = get_u32(op, "len", 0);
                    json!({"ok": true, "data": hex(&peek(m, start, len))})
                }
                "lcd_full" => {
                    let (meta, payload) = m
                        .rt
                        .lcd
                        .as_ref()
                        .map(|l| l.export_snapshot())
                        .unwrap_or((Value::Null, Vec::new()));
                    json!({"ok": true, "meta": meta, "vram": hex(&payload)})
                }
                "kb_full" => {
                    let v = m
                        .rt
                        .keyboard
                        .as_ref()
                        .and_then(|k| serde_json::to_value(k.snapshot_state()).ok())
                        .unwrap_or(Value::Null);
                    json!({"ok": true, "kb": v})
                }
                "save" => {
                    let path = get_str(op, "path", "");
                    match m.rt.save_snapshot(std::path::Path::new(path)) {
                        Ok(()) => json!({"ok": true, "err": null}),
                        Err(e) => json!({"ok": true, "err": format!("{e}")}),
                    }
                }
                "load" => {
                    let path = get_str(op, "path", "");
                    match m.rt.load_snapshot(std::path::Path::new(path)) {
                        Ok(()) => json!({"ok": true, "err": null}),
                        Err(e) => json!({"ok": true, "err": format!("{e}")}),
                    }
                }
                // run steps [from, to): before step j apply events[j]; optional save before the events of
                // each step j <= save_upto into <save_prefix><j>.pcsnap; observation after every step.
                "run" => {
                    let from = get_u64(op, "from", 0);
                    let to = get_u64(op, "to", 0);
                    let evs = op.get("events");
                    let save_prefix = op.get("save_prefix").and_then(|v| v.as_str());
                    let save_upto = get_u64(op, "save_upto", 0);
                    let want_diag = get_bool(op, "diag", false);
                    let mut obs = Vec::new();
                    let mut diags = Vec::new();
                    let mut save_errs = Vec::new();
                    let mut j = from;
                    loop {
                        if let Some(pre) = save_prefix {
                            if j <= save_upto {
                                let p = format!("{pre}{j}.pcsnap");
                                if let Err(e) = m.rt.save_snapshot(std::path::Path::new(&p)) {
                                    save_errs.push(json!([j, format!("{e}")]));
                                }
                                if want_diag {
                                    diags.push(diag(m));
                                }
                            }
                        }
                        if j >= to {
                            break;
                        }
                        apply_events(m, events_at(evs, j));
                        let e = step_once(m);
                        let mut o = observe(m);
                        if let Some(msg) = e {
                            o.as_object_mut().unwrap().insert("err".into(), json!(msg));
                        }
                        obs.push(o);
                        j += 1;
                    }
                    json!({"ok": true, "obs": obs, "diags": diags, "save_errs": save_errs})
                }
                _ => err(format!("unknown c16 op {kind}")),
            }
        }
    }
}

pub fn handle(verb: &str, req: &Value, st: &mut State) -> Value {
    match verb {
        "ops" => {
            let mut results = Vec::new();
            if let Some(ops) = req.get("ops").and_then(|v| v.as_array()) {
                for op in ops {
                    results.push(do_op(op, st));
                }
            }
            json!({"ok": true, "results": results})
        }
        _ => err(format!("c16.{verb} not implemented")),
    }
}
