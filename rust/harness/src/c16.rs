//! c16 -- placeholder; implemented by the owning property module.
use serde_json::{json, Value};

#[derive(Default)]
pub struct State {}

pub fn handle(verb: &str, _req: &Value, _st: &mut State) -> Value {
    json!({"ok": false, "error": format!("c16.{verb} not implemented")})
}
