//! `vh` -- verification harness binary: JSON-lines server exposing the Rust crate's public API.
//!
//! One request per line on stdin, one response per line on stdout.  `cmd` is "<module>.<verb>";
//! each property family owns one module file so they can evolve independently.  The harness holds no
//! semantics of its own beyond the hash-filled sparse bus (cpu.rs) and scripted tasks (c18.rs).
use serde_json::{json, Value};
use std::io::{BufRead, Write};

mod util;
mod cpu;
mod c08;
mod c11;
mod c13;
mod c14;
mod c15;
mod c16;
mod c17;
mod c18;
mod machine;

pub struct Sessions {
    pub cpu: cpu::CpuSessions,
    pub c08: c08::State,
    pub c11: c11::State,
    pub c13: c13::State,
    pub c14: c14::State,
    pub c15: c15::State,
    pub c16: c16::State,
    pub c18: c18::State,
    pub machine: machine::State,
}

fn dispatch(sess: &mut Sessions, req: &Value) -> Value {
    let cmd = req.get("cmd").and_then(|v| v.as_str()).unwrap_or("");
    let (module, verb) = match cmd.split_once('.') {
        Some(p) => p,
        None => (cmd, ""),
    };
    match module {
        "ping" => json!({"ok": true, "pong": true}),
        "util" => util::handle(verb, req),
        "cpu" => cpu::handle(verb, req, &mut sess.cpu),
        "c08" => c08::handle(verb, req, &mut sess.c08),
        "c11" => c11::handle(verb, req, &mut sess.c11),
        "c13" => c13::handle(verb, req, &mut sess.c13),
        "c14" => c14::handle(verb, req, &mut sess.c14),
        "c15" => c15::handle(verb, req, &mut sess.c15),
        "c16" => c16::handle(verb, req, &mut sess.c16),
        "c17" => c17::handle(verb, req),
        "c18" => c18::handle(verb, req, &mut sess.c18),
        "machine" => machine::handle(verb, req, &mut sess.machine),
        _ => json!({"ok": false, "error": format!("unknown cmd {cmd}")}),
    }
}

fn main() {
    // Panics inside the code under test are reported as {"ok":false,"panic":...}, not as a dead harness.
    std::panic::set_hook(Box::new(|_| {}));
    let mut sess = Sessions {
        cpu: Default::default(),
        c08: Default::default(),
        c11: Default::default(),
        c13: Default::default(),
        c14: Default::default(),
        c15: Default::default(),
        c16: Default::default(),
        c18: Default::default(),
        machine: Default::default(),
    };
    let stdin = std::io::stdin();
    let stdout = std::io::stdout();
    let mut out = std::io::BufWriter::new(stdout.lock());
    for line in stdin.lock().lines() {
        let line = match line {
            Ok(l) => l,
            Err(_) => break,
        };
        if line.trim().is_empty() {
            continue;
        }
        let resp = match serde_json::from_str::<Value>(&line) {
            Ok(req) => {
                let r = std::panic::catch_unwind(std::panic::AssertUnwindSafe(|| {
                    dispatch(&mut sess, &req)
                }));
                match r {
                    Ok(v) => v,
                    Err(e) => {
                        let msg = if let Some(s) = e.downcast_ref::<&str>() {
                            s.to_string()
                        } else if let Some(s) = e.downcast_ref::<String>() {
                            s.clone()
                        } else {
                            "panic".to_string()
                        };
                        json!({"ok": false, "panic": msg})
                    }
                }
            }
            Err(e) => json!({"ok": false, "error": format!("bad json: {e}")}),
        };
        let _ = serde_json::to_writer(&mut out, &resp);
        let _ = out.write_all(b"\n");
        let _ = out.flush();
    }
}
