fn main() { println!("{}", sc62015_core::INTERNAL_MEMORY_START); }
