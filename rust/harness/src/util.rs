//! Shared helpers: the memory-fill hash (must equal vp_harness.core.mix32) and JSON accessors.
use serde_json::{json, Value};

pub fn mix32(seed: u32, vals: &[u32]) -> u32 {
    let mut h: u32 = seed ^ 0x9E37_79B9;
    for v in vals {
        h ^= *v;
        h = h.wrapping_mul(0x85EB_CA6B);
        h ^= h >> 13;
        h = h.wrapping_mul(0xC2B2_AE35);
        h ^= h >> 16;
    }
    h
}

pub fn get_u64(v: &Value, key: &str, default: u64) -> u64 {
    v.get(key).and_then(|x| x.as_u64()).unwrap_or(default)
}

pub fn get_u32(v: &Value, key: &str, default: u32) -> u32 {
    get_u64(v, key, default as u64) as u32
}

pub fn get_bool(v: &Value, key: &str, default: bool) -> bool {
    v.get(key).and_then(|x| x.as_bool()).unwrap_or(default)
}

pub fn get_str<'a>(v: &'a Value, key: &str, default: &'a str) -> &'a str {
    v.get(key).and_then(|x| x.as_str()).unwrap_or(default)
}

pub fn err(msg: impl Into<String>) -> Value {
    json!({"ok": false, "error": msg.into()})
}

pub fn handle(verb: &str, req: &Value) -> Value {
    match verb {
        "mix32" => {
            let seed = get_u32(req, "seed", 0);
            let vals: Vec<u32> = req
                .get("vals")
                .and_then(|v| v.as_array())
                .map(|a| a.iter().map(|x| x.as_u64().unwrap_or(0) as u32).collect())
                .unwrap_or_default();
            json!({"ok": true, "value": mix32(seed, &vals)})
        }
        _ => err(format!("unknown util verb {verb}")),
    }
}
