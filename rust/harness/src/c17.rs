//! c17 -- placeholder; implemented by the owning property module.
use serde_json::{json, Value};

pub fn handle(verb: &str, _req: &Value) -> Value {
    json!({"ok": false, "error": format!("c17.{verb} not implemented")})
}
