//! c17 -- dump the Rust core's copies of the architecture tables and constants as JSON, plus a few
//! behavioural probes for the *private* copies (vectors in eval.rs / lib.rs).
//!
//! No semantics of its own: every value is read from a `pub` item of the crate or observed by calling a
//! public function.  Normalisation and comparison happen on the Python side (vp_harness/props/c17.py).
use crate::cpu::{reg_by_name, HashBus};
use crate::util::{err, get_u32};
use sc62015_core::llama::eval::{power_on_reset, LlamaBus};
use sc62015_core::llama::opcodes::{
    InstrKind, OperandKind, RegImemOffsetKind, RegName, OPCODES,
};
use sc62015_core::llama::state::{mask_for, LlamaState};
use sc62015_core::memory::{self, MemoryImage};
use sc62015_core::{iq7000, pce500, CoreRuntime};
use serde_json::{json, Map, Value};

fn reg_str(r: RegName) -> String {
    match r {
        RegName::A => "A".into(),
        RegName::B => "B".into(),
        RegName::BA => "BA".into(),
        RegName::IL => "IL".into(),
        RegName::IH => "IH".into(),
        RegName::I => "I".into(),
        RegName::X => "X".into(),
        RegName::Y => "Y".into(),
        RegName::U => "U".into(),
        RegName::S => "S".into(),
        RegName::F => "F".into(),
        RegName::PC => "PC".into(),
        RegName::FC => "FC".into(),
        RegName::FZ => "FZ".into(),
        RegName::IMR => "IMR".into(),
        RegName::Temp(n) => format!("TEMP{n}"),
        RegName::Unknown(s) => format!("?{s}"),
    }
}

fn operand_json(op: &OperandKind) -> Value {
    #[allow(unreachable_patterns)]
    match *op {
        OperandKind::Reg(r, bits) => json!({"k": "Reg", "reg": reg_str(r), "n": bits}),
        OperandKind::Imm(bits) => json!({"k": "Imm", "n": bits}),
        OperandKind::ImmOffset => json!({"k": "ImmOffset"}),
        OperandKind::IMem(bits) => json!({"k": "IMem", "n": bits}),
        OperandKind::EMemAddr(n) => json!({"k": "EMemAddr", "n": n}),
        OperandKind::EMemReg(n) => json!({"k": "EMemReg", "n": n}),
        OperandKind::EMemIMem(n) => json!({"k": "EMemIMem", "n": n}),
        OperandKind::EMemImemOffsetDestIntMem => json!({"k": "EMemImemOffsetDestIntMem"}),
        OperandKind::EMemImemOffsetDestExtMem => json!({"k": "EMemImemOffsetDestExtMem"}),
        OperandKind::EMemRegModePostPre => json!({"k": "EMemRegModePostPre"}),
        OperandKind::EMemAddrWidth(n) => json!({"k": "EMemAddrWidth", "n": n}),
        OperandKind::EMemAddrWidthOp(n) => json!({"k": "EMemAddrWidthOp", "n": n}),
        OperandKind::EMemRegWidth(n) => json!({"k": "EMemRegWidth", "n": n}),
        OperandKind::EMemRegWidthMode(n) => json!({"k": "EMemRegWidthMode", "n": n}),
        OperandKind::EMemIMemWidth(n) => json!({"k": "EMemIMemWidth", "n": n}),
        OperandKind::IMemWidth(n) => json!({"k": "IMemWidth", "n": n}),
        OperandKind::RegPair(n) => json!({"k": "RegPair", "n": n}),
        OperandKind::RegIMemOffset(kind) => {
            let order = match kind {
                RegImemOffsetKind::DestImem => "DestImem",
                RegImemOffsetKind::DestRegOffset => "DestRegOffset",
            };
            json!({"k": "RegIMemOffset", "order": order})
        }
        OperandKind::RegB => json!({"k": "RegB"}),
        OperandKind::RegIL => json!({"k": "RegIL"}),
        OperandKind::RegIMR => json!({"k": "RegIMR"}),
        OperandKind::RegF => json!({"k": "RegF"}),
        OperandKind::Reg3 => json!({"k": "Reg3"}),
        OperandKind::Unknown(s) => json!({"k": "Unknown", "name": s}),
        OperandKind::Placeholder => json!({"k": "Placeholder"}),
        OperandKind::ImemPtr => json!({"k": "ImemPtr"}),
        other => json!({"k": "?", "debug": format!("{other:?}")}),
    }
}

fn kind_str(k: InstrKind) -> String {
    format!("{k:?}")
}

fn opcode_table() -> Value {
    let rows: Vec<Value> = OPCODES
        .iter()
        .enumerate()
        .map(|(idx, e)| {
            json!({
                "index": idx,
                "opcode": e.opcode,
                "kind": kind_str(e.kind),
                "name": e.name,
                "cond": e.cond,
                "ops_reversed": e.ops_reversed,
                "operands": e.operands.iter().map(operand_json).collect::<Vec<_>>(),
            })
        })
        .collect();
    Value::Array(rows)
}

const REG_NAMES: [&str; 15] = [
    "A", "B", "BA", "IL", "IH", "I", "X", "Y", "U", "S", "PC", "F", "FC", "FZ", "IMR",
];

fn consts() -> Value {
    let mut m = Map::new();
    // memory.rs
    m.insert("memory.INTERNAL_MEMORY_START".into(), json!(memory::INTERNAL_MEMORY_START));
    m.insert("memory.ADDRESS_MASK".into(), json!(memory::ADDRESS_MASK));
    m.insert("memory.INTERNAL_ADDR_MASK".into(), json!(memory::INTERNAL_ADDR_MASK));
    m.insert("memory.EXTERNAL_SPACE".into(), json!(memory::EXTERNAL_SPACE));
    m.insert("memory.INTERNAL_SPACE".into(), json!(memory::INTERNAL_SPACE));
    m.insert("memory.INTERNAL_RAM_START".into(), json!(memory::INTERNAL_RAM_START));
    m.insert("memory.INTERNAL_RAM_SIZE".into(), json!(memory::INTERNAL_RAM_SIZE));
    m.insert("memory.IMEM_KOL_OFFSET".into(), json!(memory::IMEM_KOL_OFFSET));
    m.insert("memory.IMEM_KOH_OFFSET".into(), json!(memory::IMEM_KOH_OFFSET));
    m.insert("memory.IMEM_KIL_OFFSET".into(), json!(memory::IMEM_KIL_OFFSET));
    m.insert("memory.IMEM_BP_OFFSET".into(), json!(memory::IMEM_BP_OFFSET));
    m.insert("memory.IMEM_PX_OFFSET".into(), json!(memory::IMEM_PX_OFFSET));
    m.insert("memory.IMEM_PY_OFFSET".into(), json!(memory::IMEM_PY_OFFSET));
    m.insert("memory.IMEM_UCR_OFFSET".into(), json!(memory::IMEM_UCR_OFFSET));
    m.insert("memory.IMEM_USR_OFFSET".into(), json!(memory::IMEM_USR_OFFSET));
    m.insert("memory.IMEM_RXD_OFFSET".into(), json!(memory::IMEM_RXD_OFFSET));
    m.insert("memory.IMEM_TXD_OFFSET".into(), json!(memory::IMEM_TXD_OFFSET));
    m.insert("memory.IMEM_IMR_OFFSET".into(), json!(memory::IMEM_IMR_OFFSET));
    m.insert("memory.IMEM_ISR_OFFSET".into(), json!(memory::IMEM_ISR_OFFSET));
    m.insert("memory.IMEM_SCR_OFFSET".into(), json!(memory::IMEM_SCR_OFFSET));
    m.insert("memory.IMEM_LCC_OFFSET".into(), json!(memory::IMEM_LCC_OFFSET));
    m.insert("memory.IMEM_SSR_OFFSET".into(), json!(memory::IMEM_SSR_OFFSET));
    // pce500.rs / iq7000.rs
    m.insert("pce500.SYSTEM_IMAGE_LEN".into(), json!(pce500::SYSTEM_IMAGE_LEN));
    m.insert("pce500.ROM_WINDOW_START".into(), json!(pce500::ROM_WINDOW_START));
    m.insert("pce500.ROM_WINDOW_LEN".into(), json!(pce500::ROM_WINDOW_LEN));
    m.insert("pce500.ROM_RESET_VECTOR_ADDR".into(), json!(pce500::ROM_RESET_VECTOR_ADDR));
    m.insert("iq7000.ROM_WINDOW_START".into(), json!(iq7000::ROM_WINDOW_START));
    m.insert("iq7000.ROM_WINDOW_LEN".into(), json!(iq7000::ROM_WINDOW_LEN));
    // lib.rs
    m.insert("lib.DEFAULT_REG_WIDTH".into(), json!(sc62015_core::DEFAULT_REG_WIDTH));
    Value::Object(m)
}

fn dump() -> Value {
    let mut masks = Map::new();
    let mut widths = Map::new();
    for n in REG_NAMES.iter() {
        if let Some(r) = reg_by_name(n) {
            masks.insert(n.to_string(), json!(mask_for(r)));
        }
        widths.insert(n.to_string(), json!(sc62015_core::register_width(n)));
    }
    masks.insert("TEMP0".into(), json!(mask_for(RegName::Temp(0))));
    masks.insert("TEMP13".into(), json!(mask_for(RegName::Temp(13))));
    let layout: Vec<Value> = sc62015_core::SNAPSHOT_REGISTER_LAYOUT
        .iter()
        .map(|(n, b)| json!([n, b]))
        .collect();
    // MemoryImage's own idea of where the internal window is (public helper functions).
    let base = memory::INTERNAL_MEMORY_START;
    let probes: Vec<u32> = vec![
        0,
        0xFFFFF,
        base.wrapping_sub(1),
        base,
        base + 0xEC,
        base + 0xFF,
        base + 0x100,
        0xFFFFFF,
    ];
    let internal: Vec<Value> = probes
        .iter()
        .map(|a| json!([a, MemoryImage::is_internal(*a), MemoryImage::internal_offset(*a)]))
        .collect();
    json!({
        "ok": true,
        "opcodes": opcode_table(),
        "consts": consts(),
        "mask_for": Value::Object(masks),
        "register_width": Value::Object(widths),
        "snapshot_register_layout": layout,
        "is_internal": internal,
    })
}

/// Tiny register-file script: [["set","BA",0x1234],["get","A"],["new"]] -> values of the gets.
/// Used to observe the sub-register layout and effective widths of `LlamaState` behaviourally.
fn regscript(req: &Value) -> Value {
    let mut st = LlamaState::new();
    let mut out: Vec<Value> = Vec::new();
    let ops = match req.get("ops").and_then(|v| v.as_array()) {
        Some(o) => o,
        None => return err("c17.regscript needs ops"),
    };
    for op in ops {
        let verb = op.get(0).and_then(|v| v.as_str()).unwrap_or("");
        match verb {
            "new" => st = LlamaState::new(),
            "set" => {
                let name = op.get(1).and_then(|v| v.as_str()).unwrap_or("");
                let val = op.get(2).and_then(|v| v.as_u64()).unwrap_or(0) as u32;
                match reg_by_name(name) {
                    Some(r) => st.set_reg(r, val),
                    None => return err(format!("unknown register {name}")),
                }
            }
            "get" => {
                let name = op.get(1).and_then(|v| v.as_str()).unwrap_or("");
                match reg_by_name(name) {
                    Some(r) => out.push(json!(st.get_reg(r))),
                    None => return err(format!("unknown register {name}")),
                }
            }
            _ => return err(format!("unknown regscript op {verb}")),
        }
    }
    json!({"ok": true, "values": out})
}

fn mem_pairs(req: &Value) -> Vec<(u32, u8)> {
    req.get("mem")
        .and_then(|v| v.as_array())
        .map(|a| {
            a.iter()
                .map(|p| {
                    (
                        p.get(0).and_then(|x| x.as_u64()).unwrap_or(0) as u32,
                        p.get(1).and_then(|x| x.as_u64()).unwrap_or(0) as u8,
                    )
                })
                .collect()
        })
        .unwrap_or_default()
}

/// `llama::eval::power_on_reset` on the hash bus: which vector does PC take?
fn reset_llama(req: &Value) -> Value {
    let mut bus = HashBus::new(get_u32(req, "seed", 0));
    for (a, v) in mem_pairs(req) {
        bus.over.insert(crate::cpu::canon(a), v);
    }
    bus.log_reads = true;
    let mut st = LlamaState::new();
    st.set_pc(get_u32(req, "pc", 0));
    power_on_reset(&mut bus, &mut st);
    json!({"ok": true, "pc": st.pc(), "reads": bus.reads, "writes": bus.writes.iter().map(|(a, v)| json!([a, v])).collect::<Vec<_>>()})
}

fn runtime_with(req: &Value) -> CoreRuntime {
    let mut rt = CoreRuntime::new();
    for (a, v) in mem_pairs(req) {
        if MemoryImage::is_internal(a) {
            rt.memory.write_internal_byte(a - memory::INTERNAL_MEMORY_START, v);
        } else {
            rt.memory.write_external_byte(a, v);
        }
    }
    if let Some(regs) = req.get("regs").and_then(|v| v.as_object()) {
        for (k, v) in regs.iter() {
            if let Some(x) = v.as_u64() {
                rt.set_reg(k, x as u32);
            }
        }
    }
    rt
}

/// `CoreRuntime::power_on_reset` on a real `MemoryImage`.
fn reset_runtime(req: &Value) -> Value {
    let mut rt = runtime_with(req);
    rt.power_on_reset();
    json!({"ok": true, "pc": rt.get_reg("PC")})
}

/// Hardware interrupt delivery by `CoreRuntime::step`: IMR/ISR are set through `mem`, the pending latch
/// through the public `timer` field; PC is reported after every single step.
fn irq_runtime(req: &Value) -> Value {
    let mut rt = runtime_with(req);
    rt.timer.irq_pending = true;
    if let Some(src) = req.get("source").and_then(|v| v.as_str()) {
        rt.timer.irq_source = Some(src.to_string());
    }
    let steps = get_u32(req, "steps", 2);
    let mut pcs: Vec<Value> = vec![json!(rt.get_reg("PC"))];
    let mut errors: Vec<Value> = Vec::new();
    for _ in 0..steps {
        if let Err(e) = rt.step(1) {
            errors.push(json!(format!("{e}")));
            break;
        }
        pcs.push(json!(rt.get_reg("PC")));
    }
    json!({"ok": true, "pcs": pcs, "errors": errors, "in_interrupt": rt.timer.in_interrupt,
           "s": rt.get_reg("S")})
}

/// Which internal-memory byte does the timer block use as ISR?  (`timer.rs` keeps a private copy of the
/// offset.)  A main-timer period of one cycle is ticked once on an all-zero `MemoryImage`; the non-zero
/// internal bytes afterwards are reported.
fn timer_isr(_req: &Value) -> Value {
    let mut mem = MemoryImage::new();
    let mut timer = sc62015_core::TimerContext::new(true, 1, 0);
    let fired = timer.tick_timers(&mut mem, 16, None);
    let touched: Vec<Value> = (0u32..0x100)
        .filter_map(|off| match mem.read_internal_byte_silent(off) {
            Some(v) if v != 0 => Some(json!([off, v])),
            _ => None,
        })
        .collect();
    json!({"ok": true, "fired": [fired.0, fired.1], "nonzero": touched})
}

fn reg_map(req: &Value) -> std::collections::HashMap<String, u32> {
    let mut m = std::collections::HashMap::new();
    if let Some(regs) = req.get("regs").and_then(|v| v.as_object()) {
        for (k, v) in regs.iter() {
            if let Some(x) = v.as_u64() {
                m.insert(k.clone(), x as u32);
            }
        }
    }
    m
}

fn map_json(m: &std::collections::HashMap<String, u32>) -> Value {
    let mut keys: Vec<&String> = m.keys().collect();
    keys.sort();
    let mut out = Map::new();
    for k in keys {
        out.insert(k.clone(), json!(m[k]));
    }
    Value::Object(out)
}

/// registers.bin as the Rust core writes it.  "direct": `snapshot::pack_registers` on the given name->value
/// map.  "state": the `CoreRuntime::save_snapshot` route: registers set on a `LlamaState` through `set_reg`,
/// then `collect_registers` -> `pack_registers`.
fn snapshot_pack(req: &Value) -> Value {
    let regs = reg_map(req);
    let direct = sc62015_core::pack_registers(&regs);
    let mut st = LlamaState::new();
    let mut names: Vec<&String> = regs.keys().collect();
    names.sort();
    for n in names {
        match reg_by_name(n) {
            Some(r) => st.set_reg(r, regs[n]),
            None => return err(format!("unknown register {n}")),
        }
    }
    let collected = sc62015_core::collect_registers(&st);
    let via_state = sc62015_core::pack_registers(&collected);
    json!({"ok": true, "direct": direct, "state": via_state})
}

/// registers.bin as the Rust core reads it.  "direct": `snapshot::unpack_registers`; "state": the
/// `CoreRuntime::load_snapshot` route: `apply_registers` onto a fresh `LlamaState`, read back with `get_reg`.
fn snapshot_unpack(req: &Value) -> Value {
    let bytes: Vec<u8> = req
        .get("bytes")
        .and_then(|v| v.as_array())
        .map(|a| a.iter().map(|x| x.as_u64().unwrap_or(0) as u8).collect())
        .unwrap_or_default();
    let regs = match sc62015_core::unpack_registers(&bytes) {
        Ok(r) => r,
        Err(e) => return json!({"ok": true, "error": format!("{e}")}),
    };
    let mut st = LlamaState::new();
    sc62015_core::apply_registers(&mut st, &regs);
    let mut state = Map::new();
    for n in ["PC", "BA", "I", "X", "Y", "U", "S", "F"].iter() {
        if let Some(r) = reg_by_name(n) {
            state.insert(n.to_string(), json!(st.get_reg(r)));
        }
    }
    json!({"ok": true, "direct": map_json(&regs), "state": Value::Object(state)})
}

/// The Rust core's public copies of the key-port window, swept over all 256 internal offsets:
/// `MemoryImage::is_keyboard_offset`, the offsets whose `MemoryImage::requires_python` answer depends on
/// `set_keyboard_bridge`, and the offsets `KeyboardMatrix::handle_read` / `handle_write` accept (fresh
/// keyboard and memory for every offset).
fn kio_tables(_req: &Value) -> Value {
    let base = memory::INTERNAL_MEMORY_START;
    let is_kb: Vec<u32> = (0u32..0x100)
        .filter(|o| MemoryImage::is_keyboard_offset(*o))
        .collect();
    let mut plain = MemoryImage::new();
    plain.set_keyboard_bridge(false);
    let mut bridged = MemoryImage::new();
    bridged.set_keyboard_bridge(true);
    let bridge_dep: Vec<u32> = (0u32..0x100)
        .filter(|o| plain.requires_python(base + *o) != bridged.requires_python(base + *o))
        .collect();
    let mut rd: Vec<u32> = Vec::new();
    let mut wr: Vec<u32> = Vec::new();
    for o in 0u32..0x100 {
        let mut kb = sc62015_core::KeyboardMatrix::new();
        let mut mem = MemoryImage::new();
        if kb.handle_read(o, &mut mem).is_some() {
            rd.push(o);
        }
        let mut kb = sc62015_core::KeyboardMatrix::new();
        let mut mem = MemoryImage::new();
        if kb.handle_write(o, 0x11, &mut mem) {
            wr.push(o);
        }
    }
    json!({"ok": true, "is_keyboard_offset": is_kb, "requires_python_bridge_dependent": bridge_dep,
           "handle_read": rd, "handle_write": wr})
}

fn kb_latches(rt: &CoreRuntime) -> Value {
    match rt.keyboard.as_ref() {
        Some(kb) => {
            let s = kb.snapshot_state();
            json!([s.kol, s.koh, s.kil_latch])
        }
        None => Value::Null,
    }
}

/// Batch of independent single-instruction runs through `CoreRuntime::step` (the only place where the
/// runtime's own bus -- and with it the private copy of the key-port window -- is used).  Common setup:
/// "kb_writes" (applied through `KeyboardMatrix::handle_write`, so that the keyboard's latches differ from
/// memory), then "imem" (256 bytes planted directly into the `MemoryImage`).  Per run: "code" at "pc",
/// "regs", and "keyboard": false detaches the keyboard (`rt.keyboard = None`) before anything else.
/// Reported per run: registers, the internal-memory image and the keyboard latches (pub snapshot fields)
/// before and after the step.
fn runtime_probe(req: &Value) -> Value {
    let imem: Vec<u8> = req
        .get("imem")
        .and_then(|v| v.as_array())
        .map(|a| a.iter().map(|x| x.as_u64().unwrap_or(0) as u8).collect())
        .unwrap_or_default();
    let kb_writes: Vec<(u32, u8)> = req
        .get("kb_writes")
        .and_then(|v| v.as_array())
        .map(|a| {
            a.iter()
                .map(|p| {
                    (
                        p.get(0).and_then(|x| x.as_u64()).unwrap_or(0) as u32,
                        p.get(1).and_then(|x| x.as_u64()).unwrap_or(0) as u8,
                    )
                })
                .collect()
        })
        .unwrap_or_default();
    let pc = get_u32(req, "pc", 0x10000);
    let empty: Vec<Value> = Vec::new();
    let runs = req.get("runs").and_then(|v| v.as_array()).unwrap_or(&empty);
    let mut out: Vec<Value> = Vec::with_capacity(runs.len());
    for run in runs {
        let mut rt = CoreRuntime::new();
        let attached = run.get("keyboard").and_then(|v| v.as_bool()).unwrap_or(true);
        if !attached {
            rt.keyboard = None;
        }
        if let Some(kb) = rt.keyboard.as_mut() {
            for (o, v) in kb_writes.iter() {
                kb.handle_write(*o, *v, &mut rt.memory);
            }
        }
        for (o, v) in imem.iter().enumerate() {
            rt.memory.write_internal_byte(o as u32, *v);
        }
        if let Some(code) = run.get("code").and_then(|v| v.as_array()) {
            for (i, b) in code.iter().enumerate() {
                rt.memory
                    .write_external_byte(pc + i as u32, b.as_u64().unwrap_or(0) as u8);
            }
        }
        if let Some(regs) = run.get("regs").and_then(|v| v.as_object()) {
            for (k, v) in regs.iter() {
                if let Some(x) = v.as_u64() {
                    rt.set_reg(k, x as u32);
                }
            }
        }
        rt.set_reg("PC", pc);
        let before = kb_latches(&rt);
        let error = match rt.step(1) {
            Ok(()) => Value::Null,
            Err(e) => json!(format!("{e}")),
        };
        let mut regs = Map::new();
        for n in ["BA", "I", "X", "Y", "U", "S", "F", "PC"].iter() {
            regs.insert(n.to_string(), json!(rt.get_reg(n)));
        }
        let image: Vec<Value> = (0u32..0x100)
            .map(|o| json!(rt.memory.read_internal_byte_silent(o).unwrap_or(0)))
            .collect();
        out.push(json!({"regs": Value::Object(regs), "imem": image, "kb_before": before,
                        "kb_after": kb_latches(&rt), "err": error}));
    }
    json!({"ok": true, "runs": out})
}

/// Batch of step sequences fed to a fresh `LoopDetector` (default configuration) through the public
/// `record_step`; the detector's `last_report()` is returned as the crate serialises it (`LoopReport:
/// Serialize`), or null when no loop was reported.  Step = [pc_before, pc_after, opcode, instr_len,
/// in_interrupt (0/1, optional)].
fn loop_feed(req: &Value) -> Value {
    let empty: Vec<Value> = Vec::new();
    let runs = req.get("runs").and_then(|v| v.as_array()).unwrap_or(&empty);
    let mut out: Vec<Value> = Vec::with_capacity(runs.len());
    for run in runs {
        let mut det = sc62015_core::LoopDetector::new(sc62015_core::LoopDetectorConfig::default());
        let steps = run.get("steps").and_then(|v| v.as_array()).unwrap_or(&empty);
        for s in steps {
            let g = |i: usize| s.get(i).and_then(|x| x.as_u64()).unwrap_or(0);
            det.record_step(sc62015_core::LoopStep {
                pc_before: g(0) as u32,
                pc_after: g(1) as u32,
                opcode: g(2) as u8,
                instr_len: g(3) as u8,
                in_interrupt: g(4) != 0,
                irq_source: None,
            });
        }
        out.push(match det.last_report() {
            Some(r) => serde_json::to_value(r).unwrap_or(Value::Null),
            None => Value::Null,
        });
    }
    json!({"ok": true, "reports": out})
}

/// Batch of independent program runs through `CoreRuntime::step`, one instruction at a time ("bulk": the
/// whole run as one `step(steps)` call).  Per run:
/// "code" planted at "pc" (external memory), "regs", "steps", and the switches "loop_detector" (calls the
/// public `enable_loop_detector(LoopDetectorConfig::default())`), "call_level" (initial
/// `set_call_depth`/`set_call_sub_level`), "in_interrupt" (initial value of the pub `timer.in_interrupt`).
/// Reported per run: per step [pc, cycle_count, call_depth, call_sub_level, timer.in_interrupt, halted],
/// the first error, and the loop detector's `last_report()` as the crate serialises it.
fn runtime_trace(req: &Value) -> Value {
    let empty: Vec<Value> = Vec::new();
    let runs = req.get("runs").and_then(|v| v.as_array()).unwrap_or(&empty);
    let mut out: Vec<Value> = Vec::with_capacity(runs.len());
    for run in runs {
        let mut rt = CoreRuntime::new();
        let pc = get_u32(run, "pc", 0x10000);
        if let Some(code) = run.get("code").and_then(|v| v.as_array()) {
            for (i, b) in code.iter().enumerate() {
                rt.memory
                    .write_external_byte(pc + i as u32, b.as_u64().unwrap_or(0) as u8);
            }
        }
        for (a, v) in mem_pairs(run) {
            if MemoryImage::is_internal(a) {
                rt.memory.write_internal_byte(a - memory::INTERNAL_MEMORY_START, v);
            } else {
                rt.memory.write_external_byte(a, v);
            }
        }
        if let Some(regs) = run.get("regs").and_then(|v| v.as_object()) {
            for (k, v) in regs.iter() {
                if let Some(x) = v.as_u64() {
                    rt.set_reg(k, x as u32);
                }
            }
        }
        rt.set_reg("PC", pc);
        if run.get("loop_detector").and_then(|v| v.as_bool()).unwrap_or(false) {
            rt.enable_loop_detector(sc62015_core::LoopDetectorConfig::default());
        }
        if let Some(level) = run.get("call_level").and_then(|v| v.as_u64()) {
            rt.state.set_call_depth(level as u32);
            rt.state.set_call_sub_level(level as u32);
        }
        if let Some(flag) = run.get("in_interrupt").and_then(|v| v.as_bool()) {
            rt.timer.in_interrupt = flag;
        }
        let snap = |rt: &CoreRuntime| {
            json!([rt.get_reg("PC"), rt.cycle_count(), rt.state.call_depth(), rt.state.call_sub_level(),
                   rt.timer.in_interrupt, rt.state.is_halted()])
        };
        let mut trace: Vec<Value> = vec![snap(&rt)];
        let mut error = Value::Null;
        let bulk = run.get("bulk").and_then(|v| v.as_bool()).unwrap_or(false);
        let total = get_u32(run, "steps", 1);
        for _ in 0..(if bulk { 1 } else { total }) {
            let n = if bulk { total as usize } else { 1 };
            let r = std::panic::catch_unwind(std::panic::AssertUnwindSafe(|| rt.step(n)));
            match r {
                Ok(Ok(())) => trace.push(snap(&rt)),
                Ok(Err(e)) => {
                    error = json!(format!("{e}"));
                    break;
                }
                Err(_) => {
                    error = json!("panic");
                    break;
                }
            }
        }
        let report = match rt.loop_detector().and_then(|d| d.last_report()) {
            Some(r) => serde_json::to_value(r).unwrap_or(Value::Null),
            None => Value::Null,
        };
        out.push(json!({"trace": trace, "err": error, "report": report}));
    }
    json!({"ok": true, "runs": out})
}

pub fn handle(verb: &str, req: &Value) -> Value {
    match verb {
        "timer_isr" => timer_isr(req),
        "dump" => dump(),
        "regscript" => regscript(req),
        "reset_llama" => reset_llama(req),
        "reset_runtime" => reset_runtime(req),
        "irq_runtime" => irq_runtime(req),
        "snapshot_pack" => snapshot_pack(req),
        "snapshot_unpack" => snapshot_unpack(req),
        "kio_tables" => kio_tables(req),
        "runtime_probe" => runtime_probe(req),
        "loop_feed" => loop_feed(req),
        "runtime_trace" => runtime_trace(req),
        _ => err(format!("unknown c17 verb {verb}")),
    }
}

#[allow(dead_code)]
fn _bus_is_llama_bus<B: LlamaBus>(_b: &B) {}
