#!/usr/bin/env python3
"""Regenerate MANIFEST.json from the table below (single source of truth for what is claimed)."""
import json, os
ROOT = os.path.dirname(os.path.dirname(os.path.abspath(__file__)))

CHECKS = {
 # id: (technique, level text, level_note, design_ref)
 "C01": ("exhaustive enumeration of structural instruction heads + Hypothesis raw bytes / decode histories; oracle: totality, length bounds, trailing-byte and history independence, cross-consumer agreement",
         "Exploration: the structural part of the input space (prefix x opcode x second byte, ~1.05M heads) is enumerated completely in the thorough tier (stratified 1/16 + all operand-validating opcodes in quick); remaining operand bytes, addresses, truncations, hostile tails and decode histories are generated. Finds any consumer disagreement or escaping exception on the explored inputs; does not prove absence for unexplored tails.",
         "Trusts binja_test_mocks (mock Binary Ninja API) and the harness's reading of 'emulator fetch path' = Emulator.decode_instruction.",
         "DESIGN.md 4/C01"),
 "C06": ("differential testing Python emulator vs Rust LLAMA executor on generated (encoding, state) pairs over an identical hash-filled bus",
         "Exploration: every decoder-accepted structural head (thorough) / every (prefix, opcode) pair (quick) is executed once on both cores from a generated state and compared field by field (registers, flags, PC, length, power state, final memory).",
         "Rust core compiled unmodified from /repo through a shadow manifest (features perfetto/cli off); both cores see the harness's canonicalising bus; TEMP registers and call bookkeeping not compared.",
         "DESIGN.md 4/C06"),
}

PENDING_REASON = "check under construction in this session; not claimed until its machinery is merged and quiet on the unchanged tree"
ALL = [f"C{i:02d}" for i in range(1, 19)]

def main():
    claimed = [p for p in ALL if p in CHECKS and os.path.exists(os.path.join(ROOT, "vp_harness", "props", p.lower() + ".py")) and p in ENABLED]
    checks = []
    for p in claimed:
        tech, text, note, ref = CHECKS[p]
        checks.append({
            "property_id": p,
            "quick_cmd": f"./check {p} --tier quick",
            "thorough_cmd": f"./check {p} --tier thorough",
            "evidence_file": f"evidence/{p}.json",
            "replay_cmd_template": f"./check {p} --replay {{path}}",
            "engine": "vp_harness",
            "level_claimed": {"category": "exploration", "text": text, "design_ref": ref},
            "level_note": note,
            "technique": tech,
        })
    man = {
        "version": 1,
        "setup_cmd": "./setup.sh",
        "hooks": {
            "guard": "MBLSHA_BINJA_ESR_VERIF",
            "enable": "no hooks are needed: checks import /repo's Python sources directly and compile /repo's Rust sources unmodified through rust/core-shadow (path dependency on /repo/sc62015/core/src)",
            "baseline_off_cmd": "cd /repo && /venv/bin/python -m pytest -ra -q -p no:cacheprovider --timeout=900 --continue-on-collection-errors",
            "source_commits": [],
            "add_only": True,
        },
        "engines": [{"name": "vp_harness", "path": "vp_harness/", "serves_properties": claimed,
                     "kind_free_text": "Python property-based testing harness (Hypothesis + seeded complete enumeration, 16-way sharding) with a Rust JSON-lines harness binary (rust/harness) exposing the repository's Rust crate"}],
        "checks": checks,
        "not_applicable": [{"property_id": p, "reason": PENDING_REASON} for p in ALL if p not in claimed],
        "notes": "All random choices derive from VERIF_SEED. Known findings: known_findings/*.json (open entries print KNOWN-FINDING lines; fixed entries suppress nothing).",
    }
    with open(os.path.join(ROOT, "MANIFEST.json"), "w") as fh:
        json.dump(man, fh, indent=1)
        fh.write("\n")
    print("claimed:", claimed)

ENABLED = {"C01"}
if __name__ == "__main__":
    main()
