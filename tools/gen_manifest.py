#!/usr/bin/env python3
"""Regenerate MANIFEST.json from the table below (single source of truth for what is claimed)."""
import json, os
ROOT = os.path.dirname(os.path.dirname(os.path.abspath(__file__)))

RUST_NOTE = "Rust core compiled unmodified from /repo's working tree through rust/core-shadow (features perfetto/cli off, snapshot via the local zip shim); the harness binary is a thin JSON adapter."
CHECKS = {
 # id: (technique, level text, level_note, design_ref)
 "C01": ("exhaustive enumeration of structural instruction heads + Hypothesis raw bytes / decode histories + routine sweeps into a shared IL function, streamed decodes, landmark operand values and a harness-owned thread schedule; oracle: totality, length bounds, trailing-byte and history independence, cross-consumer agreement; coverage-guided phase: atheris/libFuzzer (sc62015.pysc62015.instr instrumented) drives the same raw-bytes, decode-history and emulator-fetch-history Hypothesis strategies through fuzz_one_input into the same verdict code (child campaigns, per-shard cov/ft reported)",
         "Exploration: the structural part of the input space (prefix x opcode x second byte, ~1.05M heads) is enumerated completely in the thorough tier (stratified 1/16 + all operand-validating opcodes in quick); remaining operand bytes, addresses, truncations, hostile tails and decode histories are generated. Finds any consumer disagreement or escaping exception on the explored inputs; does not prove absence for unexplored tails.",
         "Trusts binja_test_mocks (mock Binary Ninja API) and the harness's reading of 'emulator fetch path' = Emulator.decode_instruction."),
 "C02": ("exhaustive enumeration of structural heads x don't-care tail patterns + streamed sequences, landmark operands, rejected-operation-first histories and a harness-owned thread schedule; round-trip oracle encode(decode(b)) == consumed bytes, re-decode equality, guard-never-demotes; coverage-guided phase: atheris/libFuzzer (sc62015.pysc62015.instr instrumented) drives binary(7..8) x address through the same check_one round-trip verdicts",
         "Exploration: every structural head (complete in thorough, 1/8 stratified in quick) with three tails exercising ignored bits is decoded, re-encoded and compared byte for byte; the text callback's round-trip guard must accept whatever the info callback accepts.",
         "Domain = byte strings the info callback accepts; IL equality is structural equality of mock-LLIL reprs."),
 "C03": ("generated (encoding, state) pairs; reference operand-location model driven by the rendered token stream vs logged memory callbacks and register deltas; `halted` grid (all (prefix, opcode) pairs with the core stopped at entry by an earlier executed HALT/OFF on the same emulator or a restored halted state) and `coexec` grid (a second generated emulator executes one instruction inside the k-th data read/write callback of the instruction under test), verdicts tagged by the dimension they depend on",
         "Exploration: decoder-accepted encodings x states in which all internal-memory addressing modes denote distinct addresses; the set of locations the lifted IL reads/writes must equal the set the rendered operands denote under the README addressing rules.",
         "Reference semantics written from sc62015/pysc62015/README.md; mnemonics it does not model are skipped and counted."),
 "C04": ("complete enumeration of 8-bit operand pairs x carry (2^17 per operation) + boundary/random wide operands; README-derived executable reference semantics + frame condition; every (prefix, opcode) followed by generated decoder-rejected tails (rejection classes enumerated from the decoder) and executed through CPUStepper.step / CPU.step_snapshot over sparse images with a generated fill value, same README reference, dependence tags by re-judging with NOP tail / Emulator.execute_instruction",
         "Exploration: 8-bit ALU value space enumerated completely in thorough; other encodings and widths by boundary grids and random sampling; destination, C/Z (only where documented), side effects and 'nothing else changes' compared with the reference.",
         "Where README, code comments and maintainers' tests disagree only the agreed part is asserted (DESIGN appendix B)."),
 "C05": ("grid enumeration of control-flow encodings x addresses x flags x operands (incl. landmark targets) + generated call/return programs on the Python and Rust executors with generated stack placement + long-lived-executor histories over rewritten code; static InstructionInfo vs executed PC, inverse-pair law",
         "Exploration: all branch/call/return encodings over page-boundary and interior addresses and all flag values; non-branch encodings sampled for the fall-through direction; call..ret and IR..RETI pairs with generated stack-neutral bodies.",
         "Python core only (the metadata is Python); execution through the repository's own emulator."),
 "C06": ("differential testing Python emulator vs Rust LLAMA executor on generated (encoding, state) pairs over an identical hash-filled bus, plus lockstep programs; pools of live cores (all Python emulators of a pool constructed before any of them steps, generated step order, opcode under test on a core that is not the newest), flag-context lockstep programs (whole-F writes POPU/POPS F, RETI, IR..RETI and reads interleaved with flag-changing instructions, popped bytes biased to repeat the previous whole-F write), low-power differences reported as a verdict of their own",
         "Exploration: every decoder-accepted structural head (thorough) / every (prefix, opcode) pair (quick) is executed once on both cores from a generated state and compared field by field (registers, flags, PC, length, power state, final memory); generated straight-line programs are run in lockstep.",
         RUST_NOTE + " Each core is paired with the address canonicalisation of its own project memory model; TEMP registers and call bookkeeping are not compared."),
 "C07": ("metamorphic testing: history-then-probe vs fresh core, N+M splits, twin emulators, per core; machine-level state transfer to a fresh machine (Rust and Python), converging histories, assembler history vs pristine process; entry-history: a fresh CoreRuntime driven through CoreRuntime::step or AsyncRuntimeRunner::run_instructions (generated call partition, slice, runner reuse) after generated, already finished uses of the crate's async machinery on the same thread (block_on of display/sleep/timer futures with generated event ids, dropped AsyncDrivers with leftovers, earlier runners) compared with the same calls on a pristine thread",
         "Exploration: generated execution histories (instructions, TEMP junk, call bookkeeping) followed by a probe instruction from a re-imposed architectural state must equal a fresh core's result; all split points of generated runs; twin-trace equality.",
         RUST_NOTE),
 "C08": ("Hypothesis stateful/sequence generation of register writes/reads/snapshot round trips against a reference register-file model; Python<->Rust differential; lifecycle op (reset of the register file in use, model back to fresh), snapshots built from named values and the snapshot dictionary compared name by name with reads (distinct non-zero TEMPs), complete whole/alias/whole write-order sweep over BA, I, F",
         "Exploration: generated write/read sequences with boundary-biased 32-bit values on both register files, compared with a reference model after every step; snapshot/apply round trips.",
         RUST_NOTE),
 "C09": ("round-trip testing disassemble -> assemble -> disassemble on generated accepted encodings, behavioural equivalence on a generated state, idempotence; listings on reused assemblers (also after rejected programs), linear sweeps, first-use start-up under a harness-owned schedule",
         "Exploration: texts rendered from decoder-accepted encodings (all opcodes x prefixes x mode bytes) are fed to the assembler; result must re-disassemble to the same text, behave identically and be a fixed point.",
         "Text normalisation is the one the statement prescribes; byte equality is not required."),
 "C10": ("grammar-based program generation (Hypothesis) + layout reference model, per-statement standalone equivalence, determinism over assemble() call histories; coverage-guided phase: atheris/libFuzzer (sc_asm.py and asm.py instrumented) mutates the byte string behind the same programs() Hypothesis strategy, cases judged by the same evaluate_program; Assembler configuration (SECTION_BASE_ADDRESSES / DEFAULT_SECTION overridden on a subclass, a grandchild or the instance) and raw white-space control characters inside defm strings at generated statement columns as generated dimensions of programs()",
         "Exploration: generated programs with labels (forward/backward), sections, .ORG, data directives and symbolic operands; sizes, addresses, label encodings and statelessness checked against a layout model.",
         "Instruction palette restricted to statement shapes that assemble standalone on the unchanged tree (exclusions counted)."),
 "C11": ("Hypothesis stateful testing of load/store sequences under generated memory configurations against a reference memory model (both machine models, plus the Rust CPU-facing bus); port-sized (1-3 byte) overlays with 16/24-bit accesses at every alignment around and enclosing them; Rust ROM image through both public loaders (rom window / system image) with generated image lengths",
         "Exploration: generated configurations and 8/16/24-bit accesses at boundary-biased 32-bit addresses; every load and a set of sentinel addresses compared with the model after every operation.",
         RUST_NOTE + " Device windows are excluded from plain-memory rules."),
 "C12": ("scenario generation (ROM programs x event schedules) with a step-boundary monitor; depth-bounded complete enumeration of short event sequences; powered-off period length vs. remaining timer period as a generated dimension with a timer-progress witness in powered-off steps, and runs that start before the firmware has loaded S (delivery deferred at S < 5 must leave no trace: request taken once S is valid)",
         "Exploration: the harness owns the schedule, so interleavings of timer expiries, key events and IMR/ISR writes relative to instruction boundaries are generated inputs; gate, frame, no re-entry, RETI restore, not-lost, halt/off rules monitored per model.",
         RUST_NOTE + " 'Promptly' is checked as a bounded-response property with the bound taken from the step loops."),
 "C13": ("complete enumeration of small period pairs + sampled large periods x generated monotone cycle sequences; arithmetic reference + Python<->Rust differential; machine-level runs incl. bulk run(n)/step(n) vs single stepping; host life-cycle layer: the async device-task entry point (AsyncTimerKeyboardTask on an AsyncDriver, generated slices, host resets / period reprogramming / restores of earlier snapshots between slices) judged against per-cycle ticking, and real save_snapshot -> keep running -> load_snapshot roll-backs into the used PCE500Emulator with generated snapshot producers, reference rolled back with the snapshot",
         "Exploration: per-cycle and gapped tick sequences with reset/restore points; exactly-once-per-boundary, next-target-in-future, ISR bit, disabled/zero-period and cross-implementation equality.",
         RUST_NOTE),
 "C14": ("Hypothesis stateful testing of key/strobe/scan/read histories with history invariants (KIL safety/visibility, per-key event grammar, FIFO bound, KEYI gating), per model; chord histories (9..20 keys, more transitions in one scan tick than the queue holds) and generated host observers (scan/KIO/tracer hooks counting or raising at generated invocations, host survives) on the Python matrix and handler",
         "Exploration: generated histories over all mapped keys, both polarities and debounce/repeat settings; invariants evaluated over the recorded history, not a copy of the automaton.",
         RUST_NOTE + " Thresholds are read from the object under test."),
 "C15": ("Hypothesis stateful testing of LCD read/write sequences against an HD61202 reference model on both implementations; complete enumeration of the VRAM-bit to pixel map; bystander operations interleaved into 1/3 of the histories (public observers incl. whole-machine snapshot save inside BUSY windows; refused snapshot restores with generated defects over live state) that must leave registers, VRAM and busy a function of the window accesses only",
         "Exploration: generated command/data sequences over all chip-select decodings; chip state and read values equal the model after every step in both implementations; all 8192 VRAM bits enumerated for the pixel map.",
         RUST_NOTE),
 "C16": ("snapshot-point enumeration: every step index of generated machine scenarios as save/load point, original-vs-restored step-for-step equality; cross-implementation loading; generated multi-page call graphs (near/far calls, JPF continuations, shared return tails, page-return pads) as scenario programs with every step inside the graph as snapshot point",
         "Fault-enumeration style exploration: for generated scenarios every step index is a snapshot point; the restored machine must match the uninterrupted one on registers, memory, LCD, keyboard, timers and interrupts for K further steps.",
         RUST_NOTE + " Wall-clock fields and perf counters are not compared."),
 "C17": ("complete comparison of all 256 opcode rows and every duplicated constant/table across copies, with behavioural probes for private constants; view segments as registered by init() for generated parent-file lengths, and the sub-register layout after generated alias / whole-register write histories (register files of both languages and executed flag / POP F programs)",
         "Exhaustive over a finite domain: every duplicated table row/constant is compared across all of its copies (Python decoder, arch/view definitions, Python emulator, Rust core), and view segments are checked for disjointness and placement.",
         RUST_NOTE + " Normalising mapping between Python operand classes and Rust operand kinds is part of the trusted base."),
 "C18": ("complete enumeration of small task sets/partitions + Hypothesis beyond, against a reference discrete-event scheduler; async-vs-sync machine equality; event payloads with collisions (equal DriverEvent::User ids from several tasks, also within one cycle; returned sequence compared value by value), budgets over the whole u64 range issued at clocks > 0 (saturating window), and a call-count progress watchdog that turns a stalled host loop into a no-progress verdict",
         "Exploration: scripted tasks interpreted inside the harness; resumption cycles, same-cycle order independence of budget splits, exactly-once event delivery; AsyncRuntimeRunner vs CoreRuntime.step on generated programs and slice sizes.",
         RUST_NOTE + " No progress obligation is asserted (the scheduler's own tests document idle budgets)."),
}
LEVEL = {"C16": "fault_enumeration"}

PENDING_REASON = "check under construction in this session; not claimed until its machinery is merged and quiet on the unchanged tree"
ALL = [f"C{i:02d}" for i in range(1, 19)]

def main():
    claimed = [p for p in ALL if p in CHECKS and os.path.exists(os.path.join(ROOT, "vp_harness", "props", p.lower() + ".py")) and p in ENABLED]
    checks = []
    for p in claimed:
        tech, text, note = CHECKS[p]
        ref = f"DESIGN.md section 4/{p}"
        checks.append({
            "property_id": p,
            "quick_cmd": f"./check {p} --tier quick",
            "thorough_cmd": f"./check {p} --tier thorough",
            "evidence_file": f"evidence/{p}.json",
            "replay_cmd_template": f"./check {p} --replay {{path}}",
            "engine": "vp_harness",
            "level_claimed": {"category": LEVEL.get(p, "exploration"), "text": text, "design_ref": ref},
            "level_note": note,
            "technique": tech,
        })
    man = {
        "version": 1,
        "setup_cmd": "./setup.sh",
        "hooks": {
            "guard": "MBLSHA_BINJA_ESR_VERIF",
            "enable": "no hooks are needed: checks import /repo's Python sources directly and compile /repo's Rust sources unmodified through rust/core-shadow (path dependency on /repo/sc62015/core/src)",
            "baseline_off_cmd": "cd /repo && /venv/bin/python -m pytest -ra -q -p no:cacheprovider --timeout=900 --continue-on-collection-errors",
            "source_commits": [],
            "add_only": True,
        },
        "engines": [{"name": "vp_harness", "path": "vp_harness/", "serves_properties": claimed,
                     "kind_free_text": "Python property-based testing and fuzzing harness (Hypothesis + seeded complete enumeration, 16-way sharding; atheris/libFuzzer coverage-guided campaigns driving the same Hypothesis strategies for C01, C02, C10) with a Rust JSON-lines harness binary (rust/harness) exposing the repository's Rust crate"}],
        "checks": checks,
        "not_applicable": [{"property_id": p, "reason": PENDING_REASON} for p in ALL if p not in claimed],
        "notes": "All random choices derive from VERIF_SEED (libFuzzer's internal scheduling in the coverage-guided phase is pinned by -seed only approximately; no verdict depends on it). Known findings: known_findings/*.json (open entries print KNOWN-FINDING lines; fixed entries suppress nothing).",
    }
    with open(os.path.join(ROOT, "MANIFEST.json"), "w") as fh:
        json.dump(man, fh, indent=1)
        fh.write("\n")
    print("claimed:", claimed)

ENABLED = set(ALL)
if __name__ == "__main__":
    main()
