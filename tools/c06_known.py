#!/usr/bin/env python3
"""Derive known_findings/C06.json from recorded runs on the UNCHANGED tree.

usage: tools/c06_known.py <evidence.json>... -- <replay-dir>...

For every diverging opcode ("where" = "<opcode> <mnemonic>") one open entry is written whose `subcheck`
pattern accepts any non-empty subset of the differing fields observed for that opcode on the unchanged tree
(union over all given runs).  Address-wrap ("@edge") and window-alias ("@alias") classes get one entry each.
Summaries come from the ROOT table (root-cause families, written by hand after triage).
This tool is run by hand; checks never write the known-findings file.
"""
import glob
import json
import os
import re
import sys
from collections import defaultdict

ROOT = os.path.dirname(os.path.dirname(os.path.abspath(__file__)))

FAMILIES = [
    ("F-byte-restore", {"01", "3E", "5F"},
     "Python models F as carry/zero only: POPU F / POPS F / RETI restore only C and Z, Rust restores all eight bits of F"),
    ("F-byte-push", {"2E", "4F"},
     "Python models F as carry/zero only: PUSHU F / PUSHS F push F & 3, Rust pushes all eight bits"),
    ("F-byte-IR", {"FE"},
     "Python models F as carry/zero only: IR pushes F & 3, Rust pushes all eight bits (PC differs only when the pushed frame overlaps the vector)"),
    ("prefixed-return-length", {"06", "07"},
     "RET/RETF after an addressing prefix: Python consumes prefix+opcode (length 2), Rust reports length 1"),
    ("JP-indirect", {"10", "11"},
     "JP (n) / JP r3: the cores form the target from different widths/pages"),
    ("regpair-arith", {"44", "46", "4C", "4E"},
     "ADD/SUB r,r' with registers of different widths: result width and carry differ"),
    ("ADC-SBC-carry", {"50", "51", "52", "53", "58", "59", "5A", "5B"},
     "ADC/SBC: Python loses the carry/borrow out when operand+carry-in wraps (see C04); Rust does not"),
    ("ADCL-SBCL", {"54", "55", "5C", "5D"},
     "ADCL/SBCL multi-byte chains: carry propagation / operand stepping differs"),
    ("MVL-ext", {"56", "5E", "F3", "FB"},
     "MVL with external register-indirect / memory-indirect operand: Rust leaves I non-zero and copies a different range"),
    ("EX-prefixed", {"C0", "C1", "C2", "C3"},
     "EX/EXW/EXP/EXL (m),(n) under a prefix: operand addressing modes applied differently; EXL leaves I"),
    ("BCD", {"C4", "C5", "D4", "D5"},
     "DADL/DSBL: operand stepping / carry handling differs"),
    ("MVL-int", {"CB", "CF", "DB", "E3", "EB"},
     "MVL/MVLD internal/absolute/register-indirect block forms: prefix mode selection or range differs"),
    ("CMPW-CMPP", {"C6", "C7", "D6", "D7"},
     "CMPW/CMPP: carry flag differs"),
    ("MV-emem-reg-store", {"B4", "B5", "B6"},
     "MV [r3..],r with pre-decrement / self-referencing pointer register stores a different value"),
    ("decimal-shift", {"EC", "FC"},
     "DSLL/DSRL digit shifts: address stepping differs"),
    ("RESET-vector", {"FF"},
     "RESET: Python loads PC from 0xFFFFA, Rust from 0xFFFFD (see C17)"),
]


FAMILY_FIELDS = {'F-byte-restore': ['F-high-bits'], 'F-byte-push': ['mem'], 'F-byte-IR': ['PC', 'mem'], 'prefixed-return-length': ['len', 'PC'], 'JP-indirect': ['PC'], 'regpair-arith': ['BA', 'I', 'X', 'Y', 'U', 'S', 'FC', 'FZ'], 'ADC-SBC-carry': ['FC'], 'ADCL-SBCL': ['FC', 'FZ', 'mem'], 'MVL-ext': ['I', 'X', 'Y', 'U', 'S', 'mem'], 'EX-prefixed': ['I', 'mem'], 'BCD': ['FC', 'FZ', 'I', 'mem'], 'MVL-int': ['I', 'X', 'Y', 'U', 'S', 'mem'], 'CMPW-CMPP': ['FC', 'FZ'], 'MV-emem-reg-store': ['X', 'Y', 'U', 'S', 'mem'], 'decimal-shift': ['FZ', 'I', 'mem'], 'RESET-vector': ['PC']}


# families whose divergence always includes a specific field get an exact pattern instead of 'any subset'
FAMILY_PATTERNS = {"prefixed-return-length": "re:(?:PC,)?len",
                   "F-byte-restore": "F-high-bits",
                   "F-byte-push": "re:mem\\[(?:emem|imem|mixed)\\]",
                   "F-byte-IR": "re:(?:PC,)?mem\\[(?:emem|imem|mixed)\\]"}


def family(op: str):
    for name, ops, text in FAMILIES:
        if op in ops:
            return name, text
    return "other", "the cores diverge on this instruction (not triaged into a root-cause family)"


def main(argv):
    if "--" in argv:
        i = argv.index("--")
        ev_files, rep_dirs = argv[:i], argv[i + 1:]
    else:
        ev_files, rep_dirs = argv, []
    fields = defaultdict(set)
    counts = defaultdict(int)
    for f in ev_files:
        ev = json.load(open(f))
        for k, n in ev["coverage"]["violating_cases_by_fingerprint"].items():
            fp = json.loads(k)
            fields[fp["where"]].update(fp["subcheck"].split(","))
            counts[fp["where"]] += n
    examples = {}
    for d in rep_dirs:
        for f in sorted(glob.glob(os.path.join(d, "C06-*.json"))):
            r = json.load(open(f))
            w = r["fingerprint"]["where"]
            c = r["case"]
            if w not in examples and c.get("steps", 1) == 1:
                examples[w] = c
    entries = []
    plain = sorted(w for w in fields if "@" not in w)

    def pattern(fl):
        fl = set(fl)
        if any(f.startswith("mem[") for f in fl):
            fl |= {"mem[imem]", "mem[emem]", "mem[mixed]"}
        fl = sorted(fl)
        return fl, "re:(?:(?:" + "|".join(re.escape(x) for x in fl) + ")(?:,|$))+"

    done = set()
    for name, ops, text in FAMILIES:
        ws = [w for w in plain if w.split()[0] in ops]
        if not ws:
            continue
        done.update(ws)
        allowed = set()
        for f in FAMILY_FIELDS[name]:
            allowed |= {"mem[imem]", "mem[emem]", "mem[mixed]"} if f == "mem" else {f}
        seen = set().union(*(fields[w] for w in ws))
        if not seen <= allowed:
            print(f"NOTE family {name}: observed fields outside the family's own result fields: {sorted(seen - allowed)}")
        fl, pat = pattern(allowed)
        pat = FAMILY_PATTERNS.get(name, pat)
        ex = next((examples[w] for w in ws if w in examples), None)
        entries.append({
            "id": f"C06-{name}", "property": "C06", "status": "open",
            "match": {"where": "re:(?:" + "|".join(sorted(ops)) + ") \\S+", "subcheck": pat},
            "opcodes": sorted(ops),
            "summary": f"{text} [opcodes {' '.join(sorted(ops))}; divergence confined to the instruction's own result fields: {','.join(fl)}]",
            "example": ex,
        })
    for w in plain:
        if w in done:
            continue
        op = w.split()[0]
        fl, pat = pattern(fields[w])
        entries.append({
            "id": f"C06-{op}-other", "property": "C06", "status": "open",
            "match": {"where": w, "subcheck": pat},
            "opcodes": [op],
            "summary": f"{w}: the cores diverge (not triaged into a root-cause family); differing fields: {','.join(fl)}",
            "example": examples.get(w),
        })
    for cls, text in (("@edge", "address wrap-around at the first/last byte of the internal or external space (or an emitted address "
                                "outside the canonical ranges) is handled differently by the two cores, for many pointer/stack/"
                                "block instructions"),
                      ("@alias", "bits 20-23 of an absolute address or pointer select the internal window on one core only "
                                 "(Python masks to 20 bits, Rust passes 24 bits to the bus)"),
                      ("@fetch-top", "an instruction whose bytes reach or cross the top of the external space (PC in 0xFFFF0..0xFFFFF) is "
                                     "fetched differently by the two cores: Rust wraps the byte after a PRE prefix (and the pushed return "
                                     "address of CALLF) at 20 bits while Python continues linearly into 0x100000 (the internal window); "
                                     "the cores may even decode different instructions there (Rust: 'unsupported EMEM/IMEM mode')")):
        ws = sorted(w for w in fields if w.endswith(cls))
        if not ws and cls != "@fetch-top":
            continue
        ex = None
        for w in ws:
            if w in examples:
                ex = examples[w]
                break
        entries.append({
            "id": f"C06-{cls[1:]}-class", "property": "C06", "status": "open",
            "match": {"where": f"re:.* {re.escape(cls)}"},
            "summary": text + f" ({len(ws)} opcodes seen)",
            "example": ex,
        })
    out = os.path.join(ROOT, "known_findings", "C06.json")
    with open(out, "w") as fh:
        json.dump(entries, fh, indent=1)
        fh.write("\n")
    print(f"{len(entries)} entries -> {out}")
    for w in plain:
        print(f"  {w:14s} {counts[w]:6d} {sorted(fields[w])}")


if __name__ == "__main__":
    main(sys.argv[1:])
