#!/bin/bash
# usage: tools/confirm_seeded.sh <dir with patch.diff, demo.py|demo.rs, meta.json> <seeded/ID/name>
# Confirms in the scratch worktree /tmp/w/me (repo + rust kit): suite unchanged with the change, demo fails with it and
# passes without it. On success copies the artefacts to /verif/seeded/<ID>/<name>/ and records what was run.
SRC=$1; DEST=/verif/seeded/$2
W=/tmp/w/me
if [ ! -d $W/repo ]; then   # scratch worktree + rust build kit (outside /repo and /verif; remove with `git -C /repo worktree remove --force /tmp/w/me/repo`)
  mkdir -p $W/kit/rust/demo/src
  git -C /repo worktree add -q --detach $W/repo HEAD || exit 2
  cp -r /verif/rust/vendor /verif/rust/zip-shim /verif/rust/core-shadow /verif/rust/.cargo $W/kit/rust/
  printf '[workspace]\nmembers = ["zip-shim", "core-shadow", "demo"]\nresolver = "2"\n[profile.release]\nopt-level = 2\ndebug = false\n' > $W/kit/rust/Cargo.toml
  printf '[package]\nname = "demo"\nversion = "0.1.0"\nedition = "2021"\n[dependencies]\nsc62015-core = { path = "../core-shadow" }\nserde_json = "1.0"\n' > $W/kit/rust/demo/Cargo.toml
  echo 'fn main() {}' > $W/kit/rust/demo/src/main.rs
fi
git -C $W/repo checkout -q --detach $(git -C /repo rev-parse HEAD) && git -C $W/repo checkout -- . || exit 2
git -C $W/repo apply $SRC/patch.diff || { echo "PATCH DOES NOT APPLY"; exit 2; }
run_demo() {
  if [ -f $SRC/demo.py ]; then
    (cd $W/repo && FORCE_BINJA_MOCK=1 PYTHONPATH=$W/repo timeout 600 /venv/bin/python $SRC/demo.py > /tmp/demo.out 2>&1); echo $?
  else
    cp $SRC/demo.rs $W/kit/rust/demo/src/main.rs
    (cd $W/kit/rust && cargo build --offline --release -q > /tmp/demo.build 2>&1 && cd $W/repo && FORCE_BINJA_MOCK=1 PYTHONPATH=$W/repo timeout 600 $W/kit/rust/target/release/demo > /tmp/demo.out 2>&1); echo $?
  fi
}
SUITE=$(cd $W/repo && /venv/bin/python -m pytest -q -p no:cacheprovider --timeout=900 --continue-on-collection-errors 2>&1 | tail -1)
WITH=$(run_demo); tail -2 /tmp/demo.out > /tmp/demo.with
git -C $W/repo checkout -- .
WITHOUT=$(run_demo)
echo "suite_with_change: $SUITE | demo with change rc=$WITH | without rc=$WITHOUT"
if echo "$SUITE" | grep -q "17 failed, 412 passed" && [ "$WITH" = "1" ] && [ "$WITHOUT" = "0" ]; then
  mkdir -p $DEST && cp $SRC/patch.diff $DEST/ && cp $SRC/demo.* $DEST/ 
  python3 - "$SRC/meta.json" "$DEST/meta.json" "$SUITE" <<'PY'
import json,sys
m=json.load(open(sys.argv[1]))
m["confirmed_by_lead"]={"suite_with_change":sys.argv[3],"demo_with_change_rc":1,"demo_without_change_rc":0,
  "how":"tools/confirm_seeded.sh in scratch worktree /tmp/w/me (git apply patch.diff; pytest baseline command; demo; git checkout; demo)"}
json.dump(m,open(sys.argv[2],"w"),indent=1)
PY
  echo "CONFIRMED -> $DEST"
else
  echo "NOT CONFIRMED"; cat /tmp/demo.with
fi
