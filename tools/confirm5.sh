#!/bin/bash
# usage: tools/confirm5.sh <ID> <n> <name>   -- confirm round-5 change /tmp/m5/<ID>/out/<n> in the tester's own scratch
# worktree /tmp/m5/<ID>/{repo,kit} (suite at baseline with the change; demo exits 1 with it, 0 without) and copy the
# artefacts to /verif/seeded/<ID>/<name>/.
ID=$1; N=$2; NAME=$3
W=/tmp/m5/$ID; SRC=$W/out/$N; DEST=/verif/seeded/$ID/$NAME; T=$W/confirm_$N
[ -f $SRC/patch.diff ] || { echo "$ID/$N: no patch"; exit 2; }
git -C $W/repo checkout -q -- . ; git -C $W/repo clean -fdq -e '__pycache__' 
git -C $W/repo apply $SRC/patch.diff || { echo "$ID/$N PATCH DOES NOT APPLY"; exit 2; }
run_demo() {
  if [ -f $SRC/demo.py ]; then
    (cd $W/repo && FORCE_BINJA_MOCK=1 PYTHONPATH=$W/repo timeout 600 /venv/bin/python $SRC/demo.py > $T.out 2>&1); echo $?
  else
    cp $SRC/demo.rs $W/kit/rust/demo/src/main.rs
    (cd $W/kit/rust && CARGO_NET_OFFLINE=true cargo build --offline --release -q > $T.build 2>&1 && cd $W/repo && FORCE_BINJA_MOCK=1 PYTHONPATH=$W/repo timeout 600 $W/kit/rust/target/release/demo > $T.out 2>&1); echo $?
  fi
}
SUITE=$(cd $W/repo && /venv/bin/python -m pytest -q -p no:cacheprovider --timeout=900 --continue-on-collection-errors 2>&1 | tail -1)
WITH=$(run_demo); tail -3 $T.out > $T.with
git -C $W/repo checkout -- .
WITHOUT=$(run_demo)
echo "$ID/$N suite_with_change: $SUITE | demo with change rc=$WITH | without rc=$WITHOUT"
if echo "$SUITE" | grep -q "17 failed, 412 passed" && [ "$WITH" = "1" ] && [ "$WITHOUT" = "0" ]; then
  mkdir -p $DEST && cp $SRC/patch.diff $DEST/ && cp $SRC/demo.* $DEST/
  python3 - "$SRC/meta.json" "$DEST/meta.json" "$SUITE" <<'PY'
import json,sys
m=json.load(open(sys.argv[1]))
m["round"]=5
m["confirmed_by_lead"]={"suite_with_change":sys.argv[3],"demo_with_change_rc":1,"demo_without_change_rc":0,
  "how":"tools/confirm5.sh in the scratch worktree (git apply patch.diff; pytest baseline command; demo; git checkout; demo)"}
json.dump(m,open(sys.argv[2],"w"),indent=1)
PY
  echo "CONFIRMED -> $DEST"
else
  echo "NOT CONFIRMED $ID/$N"; cat $T.with
fi
