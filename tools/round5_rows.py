#!/usr/bin/env python3
"""Appends the round-5 notes to the rows of DESIGN.md's 4b table (idempotent) and splices notes/round5.md (with the
table and totals below) after the 'Lessons kept in the machinery' paragraph."""
import json, glob, os, re
ROOT = os.path.dirname(os.path.dirname(os.path.abspath(__file__)))
ROWS = json.load(open(os.path.join(ROOT, "notes", "round5_rows.json")))
p = os.path.join(ROOT, "DESIGN.md"); s = open(p).read()
for pid, txt in ROWS["rows"].items():
    m = re.search(r"^\| %s \|.*\|$" % pid, s, re.M)
    assert m, pid
    line = m.group(0)
    if "Round 5:" in line:
        line = line[:line.index(" Round 5:")] + " |"
    new = line[:-2].rstrip() + " Round 5: " + txt + " |"
    s = s[:m.start()] + new + s[m.end():]
table = ["| class added (check) | seeded changes it now catches |", "|---|---|"] + [f"| {a} | {b} |" for a, b in ROWS["classes"]]
body = open(os.path.join(ROOT, "notes", "round5.md")).read().replace("@TABLE@", "\n".join(table)).replace("@TOTALS@", ROWS["totals"])
a, b = "<!-- BEGIN ROUND5 -->", "<!-- END ROUND5 -->"
if a in s:
    s = s[:s.index(a) + len(a)] + "\n" + body + "\n" + s[s.index(b):]
else:
    anchor = "device through every *access path* (direct call, bus, executed instruction) over generated backing memory.\n"
    i = s.index(anchor) + len(anchor)
    s = s[:i] + "\n" + a + "\n" + body + "\n" + b + "\n" + s[i:]
open(p, "w").write(s)
print("round 5 spliced")
