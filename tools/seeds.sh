#!/bin/bash
# usage: tools/seeds.sh <ID> [tier] [seeds...]  -- run a check at several seeds, print one line each
ID=$1; TIER=${2:-quick}; shift; shift
SEEDS=${@:-1 2 3 7 12345}
cd "$(dirname "$0")/.."
for s in $SEEDS; do
  VERIF_SEED=$s ./check $ID --tier $TIER > /tmp/seeds_${ID}_$s.out 2>&1; rc=$?
  echo "$ID seed=$s rc=$rc $(grep -c '^VIOLATION' /tmp/seeds_${ID}_$s.out) violations; $(tail -n 30 /tmp/seeds_${ID}_$s.out | grep -E "^$ID tier" | cut -c1-160)"
  [ $rc -ne 0 ] && grep '^violation' /tmp/seeds_${ID}_$s.out | cut -c1-300
done
