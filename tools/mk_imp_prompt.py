#!/usr/bin/env python3
"""usage: tools/mk_imp_prompt.py <ID> <name>...  -- writes /tmp/imp5/<ID>/prompt.txt from /tmp/imp5/PROMPT_IMP.txt"""
import json, sys
ID, names = sys.argv[1], sys.argv[2:]
T = open('/tmp/imp5/PROMPT_IMP.txt').read()
ms = []
for n in names:
    m = json.load(open(f'/verif/seeded/{ID}/{n}/meta.json'))
    ms.append(f" - seeded/{ID}/{n}: {m['summary'][:700]}\n   NEEDS: {m['needs'][:500]}")
open(f'/tmp/imp5/{ID}/prompt.txt', 'w').write(T.replace('@ID@', ID).replace('@MISSES@', '\n'.join(ms)))
