#!/usr/bin/env python3
"""Regenerate DESIGN.md appendix C (defects found) and D (seeded changes) between their markers from
known_findings/*.json and seeded/*/*/meta.json."""
import glob, json, os, re
ROOT = os.path.dirname(os.path.dirname(os.path.abspath(__file__)))

def findings_md():
    rows_fixed, rows_open = [], []
    for f in sorted(glob.glob(os.path.join(ROOT, "known_findings", "*.json"))):
        for e in json.load(open(f)):
            st = str(e.get("status", "open"))
            summ = " ".join(str(e.get("summary", "")).split())
            if st.startswith("fixed"):
                m = re.match(r"fixed: property=(\S+) (\S+) (.*)", st)
                commit, what = (m.group(2), m.group(3)) if m else ("?", st)
                rows_fixed.append(f"| {e['property']} | `{e['id']}` | {commit} | {what} |")
            else:
                rows_open.append(f"| {e['property']} | `{e['id']}` | {summ[:420]} |")
    out = ["### C.1 Genuine defects repaired in /repo (`fix:` commits; entries kept as `fixed:` and suppress nothing)", "",
           "| property | finding id | commit | what failed |", "|---|---|---|---|"] + rows_fixed + ["",
           "### C.2 Genuine defects recorded as open known findings (printed as `KNOWN-FINDING:` lines; each entry's example is replayed on every run)", "",
           "| property | finding id | what fails |", "|---|---|---|"] + rows_open + [""]
    return "\n".join(out)

def seeded_md():
    rows = []
    for f in sorted(glob.glob(os.path.join(ROOT, "seeded", "*", "*", "meta.json"))):
        m = json.load(open(f))
        name = "/".join(f.split(os.sep)[-3:-1])
        det = m.get("detection", [])
        caught = [d for d in det if d["result"] == "caught"]
        missed = [d for d in det if d["result"] != "caught"]
        c = "; ".join(f"{d['check']} {d['tier']}" + (f" ({d['fingerprint'][:90]})" if d.get('fingerprint') else "") for d in caught) or "-"
        ms = ", ".join(f"{d['check']} {d['tier']}" for d in missed) or "-"
        summ = " ".join(str(m.get("summary", "")).split())[:260]
        rows.append(f"| `{name}` | {summ} | {c} | {ms} |")
    return "\n".join(["| seeded change | what it does | caught by | not caught by |", "|---|---|---|---|"] + rows + [""])

def splice(s, tag, body):
    a, b = f"<!-- BEGIN {tag} -->", f"<!-- END {tag} -->"
    if a not in s:
        return s
    i, j = s.index(a) + len(a), s.index(b)
    return s[:i] + "\n" + body + "\n" + s[j:]

p = os.path.join(ROOT, "DESIGN.md")
s = open(p).read()
s = splice(s, "FINDINGS", findings_md())
s = splice(s, "SEEDED", seeded_md())
open(p, "w").write(s)
print("appendices regenerated")
