#!/usr/bin/env python3
"""usage: tools/record_detection.py <ID/name> <check:tier:caught|missed[:fingerprint]>..."""
import json, sys, os
ROOT = os.path.dirname(os.path.dirname(os.path.abspath(__file__)))
p = os.path.join(ROOT, "seeded", sys.argv[1], "meta.json")
m = json.load(open(p))
det = m.setdefault("detection", [])
for a in sys.argv[2:]:
    parts = a.split(":", 3)
    e = {"check": parts[0], "tier": parts[1], "result": parts[2]}
    if len(parts) > 3:
        e["fingerprint"] = parts[3]
    det[:] = [d for d in det if not (d["check"] == e["check"] and d["tier"] == e["tier"])]
    det.append(e)
json.dump(m, open(p, "w"), indent=1)
print(sys.argv[1], det)
