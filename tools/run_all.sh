#!/bin/bash
# usage: tools/run_all.sh <tier> <seed> ID...
TIER=$1; SEED=$2; shift; shift
cd "$(dirname "$0")/.."
for ID in "$@"; do
  s=$(date +%s)
  VERIF_SEED=$SEED ./check $ID --tier $TIER > /tmp/all_${ID}_$SEED.out 2>&1; rc=$?
  e=$(date +%s)
  echo "$ID seed=$SEED tier=$TIER rc=$rc t=$((e-s))s viol=$(grep -c '^VIOLATION' /tmp/all_${ID}_$SEED.out) known=$(grep -c '^KNOWN-FINDING:' /tmp/all_${ID}_$SEED.out) gone=$(grep -c 'KNOWN-FINDING-GONE' /tmp/all_${ID}_$SEED.out) :: $(grep -E "^$ID tier" /tmp/all_${ID}_$SEED.out | sed 's/.*evaluations/evaluations/' | cut -c1-90)"
  [ $rc -ne 0 ] && { grep -E '^violation|HARNESS-ERROR|Error' /tmp/all_${ID}_$SEED.out | cut -c1-300 | head -8; }
done
