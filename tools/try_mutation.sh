#!/bin/bash
# usage: tools/try_mutation.sh <patch.diff> <tier> <ID> [ID...]
# Applies a seeded change to /repo, runs the given checks, and ALWAYS restores /repo afterwards.
PATCH=$1; TIER=$2; shift; shift
cd "$(dirname "$0")/.."
if ! git -C /repo diff --quiet; then echo "refusing: /repo has uncommitted changes"; exit 2; fi
git -C /repo apply "$PATCH" || { echo "patch does not apply"; exit 2; }
trap 'git -C /repo checkout -- . ; git -C /repo status --short | head -3' EXIT
for ID in "$@"; do
  ./check $ID --tier $TIER > /tmp/mut_$ID.out 2>&1; rc=$?
  echo "== $ID tier=$TIER rc=$rc violations=$(grep -c '^VIOLATION' /tmp/mut_$ID.out)"
  grep '^violation' /tmp/mut_$ID.out | cut -c1-260 | head -6
  grep -E 'HARNESS-ERROR' /tmp/mut_$ID.out | head -3
done
