#!/bin/bash
# Sensitivity of the covfuzz phase alone: tools/covfuzz_sens.sh <ID> <seeded-name> [tier]   (scratch pair only!)
# Applies seeded/<ID>/<name>/patch.diff to $VERIF_REPO, runs ./check <ID> with VERIF_ONLY_PHASE=covfuzz, restores.
HERE="$(cd "$(dirname "${BASH_SOURCE[0]}")/.." && pwd)"
REPO="${VERIF_REPO:?set VERIF_REPO to the scratch repo worktree}"
[ "$REPO" = "/repo" ] && { echo "refusing to mutate /repo"; exit 2; }
ID="$1"; NAME="$2"; TIER="${3:-quick}"
git -C "$REPO" apply "$HERE/seeded/$ID/$NAME/patch.diff" || exit 2
OUT="$(cd "$HERE" && VERIF_ONLY_PHASE=covfuzz VERIF_REPO="$REPO" ./check "$ID" --tier "$TIER" 2>&1)"; RC=$?
echo "$OUT" | grep -v '^KNOWN-FINDING' | cut -c1-400 | tail -8
echo "exit=$RC"
/venv/bin/python - "$HERE/evidence/$ID.json" <<'PY'
import json, sys
e = json.load(open(sys.argv[1]))
for t, c in (e["coverage"].get("covfuzz") or {}).items():
    firsts = {}
    for s in c["shards"]:
        for k, n in s["violation_class_first_seen_at_call"].items():
            firsts.setdefault(k, []).append(n)
    print(t, "calls", c["calls"], "shards", len(c["shards"]))
    for k, ns in sorted(firsts.items()):
        print("   first seen at call (per shard that saw it)", sorted(ns), k[:160])
PY
git -C "$REPO" checkout -- .
git -C "$HERE" checkout -- evidence
