#!/bin/bash
N=$1; D=/tmp/imp5/$N
git -C /verif worktree remove --force $D/verif; git -C /repo worktree remove --force $D/repo; rm -rf $D
