#!/bin/bash
# usage: tools/mk_imp.sh <name>  -- scratch pair /tmp/imp5/<name>/{verif,repo}: a worktree of /verif on branch imp5-<name>
# and a detached worktree of /repo; run checks there with VERIF_REPO=/tmp/imp5/<name>/repo (the Rust shadow manifest's
# relative path ../../../repo resolves to that copy). Remove with tools/rm_imp.sh <name>.
N=$1; D=/tmp/imp5/$N
mkdir -p $D
git -C /verif worktree add -q -b imp5-$N $D/verif HEAD || exit 2
git -C /repo worktree add -q --detach $D/repo HEAD || exit 2
echo "export VERIF_REPO=$D/repo" > $D/env.sh
echo "$D ready"
