#!/bin/bash
# usage: tools/try5.sh <slot> <ID/name> <tier> <check ID>...
# Runs checks of /verif's current HEAD against a seeded change in the scratch pair /tmp/imp5/try<slot>/{verif,repo}
# (detached worktrees; the change is applied to the scratch repo copy, never to /repo, and undone afterwards), so several
# trials can run side by side and none disturbs checks running against /repo. Prints one line per check.
SLOT=$1; MUT=$2; TIER=$3; shift; shift; shift
D=/tmp/imp5/try$SLOT
if [ ! -d $D/verif ]; then
  mkdir -p $D
  git -C /verif worktree add -q --detach $D/verif HEAD || exit 2
  git -C /repo worktree add -q --detach $D/repo HEAD || exit 2
fi
git -C $D/verif checkout -q -- . ; git -C $D/verif checkout -q --detach $(git -C /verif rev-parse HEAD) || exit 2
git -C $D/repo checkout -q --detach $(git -C /repo rev-parse HEAD) && git -C $D/repo checkout -q -- . || exit 2
export VERIF_REPO=$D/repo
(cd $D/verif && ./setup.sh > $D/setup.out 2>&1) || { echo "setup failed"; tail -5 $D/setup.out; exit 2; }
git -C $D/repo apply /verif/seeded/$MUT/patch.diff || { echo "$MUT: patch does not apply"; exit 2; }
for ID in "$@"; do
  O=$D/$(echo $MUT | tr / _)_$ID.out
  s=$(date +%s)
  (cd $D/verif && ./check $ID --tier $TIER > $O 2>&1); rc=$?
  e=$(date +%s)
  echo "== $MUT check=$ID tier=$TIER rc=$rc t=$((e-s))s violations=$(grep -c '^VIOLATION' $O)"
  grep '^violation' $O | cut -c1-300 | head -5
  grep -E 'HARNESS-ERROR' $O | head -3
done
git -C $D/repo checkout -q -- .
