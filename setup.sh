#!/bin/bash
# Offline setup: Hypothesis into /venv (no-op when present) and the Rust harness binary.
set -e
HERE="$(cd "$(dirname "${BASH_SOURCE[0]}")" && pwd)"
cd "$HERE"
/venv/bin/python -c "import hypothesis" 2>/dev/null || \
  /venv/bin/pip install --no-index --find-links /opt/veriftools/wheels hypothesis
export CARGO_NET_OFFLINE=true
(cd rust && cargo build --offline --release 2>&1 | tail -3)
echo "setup ok"
