#!/bin/bash
# Offline setup: Hypothesis into /venv (no-op when present), atheris into ./.deps, and the Rust harness binary.
set -e
HERE="$(cd "$(dirname "${BASH_SOURCE[0]}")" && pwd)"
cd "$HERE"
/venv/bin/python -c "import hypothesis" 2>/dev/null || \
  /venv/bin/pip install --no-index --find-links /opt/veriftools/wheels hypothesis
# atheris (coverage-guided driver, vp_harness/covfuzz.py) goes into a private, git-ignored target directory
PYTHONPATH="$HERE/.deps" /venv/bin/python -c "import atheris" 2>/dev/null || \
  /venv/bin/pip install --no-index --find-links /opt/veriftools/wheels --target "$HERE/.deps" atheris
export CARGO_NET_OFFLINE=true
(cd rust && cargo build --offline --release 2>&1 | tail -3)
echo "setup ok"
