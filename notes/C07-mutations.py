"""usage: mut.py NAME [tier]  -- apply mutation NAME to /tmp/w/C07/repo, run pytest + check, restore."""
import subprocess, sys, os
REPO='/tmp/w/C07/repo'; VERIF='/tmp/w/C07/verif'
def rep(path, old, new, count=1):
    p=os.path.join(REPO,path); s=open(p).read()
    assert s.count(old)==count, (path, s.count(old))
    open(p,'w').write(s.replace(old,new))
M={}
def m(f): M[f.__name__]=f; return f
@m
def py_zeroacc_uninit():
    rep('sc62015/pysc62015/instr/instructions.py','''    overall_zero_acc_reg = TempReg(TempOverallZeroAcc, width=w)
    overall_zero_acc_reg.lift_assign(il, il.const(w, 0))
''','''    overall_zero_acc_reg = TempReg(TempOverallZeroAcc, width=w)
''')
@m
def rs_ret_uses_call_page():
    rep('sc62015/core/src/llama/eval.rs','''                let _ = state.pop_call_page();
                let page = current_page;
''','''                let page = state.pop_call_page().unwrap_or(current_page);
''')
@m
def py_call_level_guard():
    rep('sc62015/pysc62015/emulator.py','''            new_level = self.regs.call_sub_level + call_stack_delta
            self.regs.call_sub_level = max(0, new_level)
''','''            new_level = self.regs.call_sub_level + call_stack_delta
            if new_level > 64:
                # runaway recursion guard: treat the instruction as a NOP
                info = InstructionInfo()
                instr.analyze(info, address)
                self.regs.set(RegisterName.PC, address + cast(int, info.length))
                return InstructionEvalInfo(instruction_info=info, instruction=instr)
            self.regs.call_sub_level = max(0, new_level)
''')
@m
def py_decode_cache_by_addr():
    rep('sc62015/pysc62015/emulator.py','''        self.regs.set(RegisterName.PC, pc_value)
        instr = self.decode_instruction(address)
''','''        self.regs.set(RegisterName.PC, pc_value)
        cache = self.__dict__.setdefault("_decoded", {})
        ckey = (address, self.memory.read_byte(address))
        instr = cache.get(ckey)
        if instr is None:
            instr = cache[ckey] = self.decode_instruction(address)
''')
@m
def py_decode_cache_module_level():
    rep('sc62015/pysc62015/emulator.py','''        self.regs.set(RegisterName.PC, pc_value)
        instr = self.decode_instruction(address)
''','''        self.regs.set(RegisterName.PC, pc_value)
        ckey = (address, self.memory.read_byte(address))
        instr = _DECODED.get(ckey)
        if instr is None:
            instr = _DECODED[ckey] = self.decode_instruction(address)
''')
    rep('sc62015/pysc62015/emulator.py','''NUM_TEMP_REGISTERS = 14
''','''NUM_TEMP_REGISTERS = 14
_DECODED: Dict[int, Any] = {}
''')
@m
def py_persistent_fetch_cache():
    # reuse one CachedFetchDecoder (byte cache) across instructions
    rep('sc62015/pysc62015/emulator.py','''        if USE_CACHED_DECODER:
            decoder = CachedFetchDecoder(fecher, ADDRESS_SPACE_SIZE)
''','''        if USE_CACHED_DECODER:
            decoder = getattr(self, "_fetch_decoder", None)
            if decoder is None:
                decoder = self._fetch_decoder = CachedFetchDecoder(fecher, ADDRESS_SPACE_SIZE)
            decoder.read_mem = fecher
            decoder.pos = 0
''')
@m
def rs_retf_uses_recorded_width():
    rep('sc62015/core/src/llama/eval.rs','''                let ret = Self::pop_stack(state, bus, RegName::S, 24, false);
                let dest = ret & 0xFFFFF;
                state.set_pc(dest);
                state.call_depth_dec();
                let _ = state.pop_call_stack();
''','''                let width = match state.peek_call_return_width() { Some(16) => 16, _ => 24 };
                let ret = Self::pop_stack(state, bus, RegName::S, width, false);
                let dest = if width == 16 { (state.pc() & 0xFF0000) | (ret & 0xFFFF) } else { ret & 0xFFFFF };
                state.set_pc(dest);
                state.call_depth_dec();
                let _ = state.pop_call_stack();
''')
@m
def rs_imr_mirror_stale():
    # PUSHU/PUSHS IMR reads the mirror register instead of memory
    rep('sc62015/core/src/llama/eval.rs','''        if reg == RegName::IMR {
            let val = bus.peek_imem(IMEM_IMR_OFFSET) as u32;
            state.set_reg(RegName::IMR, val);
            return val;
        }
        state.get_reg(reg)''','''        state.get_reg(reg)''')
    rep('sc62015/core/src/llama/eval.rs','''        let mem_imr = with_imr_read_suppressed(|| bus.peek_imem_silent(IMEM_IMR_OFFSET));
        state.set_reg(RegName::IMR, mem_imr as u32);
''','''        if !state.is_halted() && state.call_depth() == 0 {
            let mem_imr = with_imr_read_suppressed(|| bus.peek_imem_silent(IMEM_IMR_OFFSET));
            state.set_reg(RegName::IMR, mem_imr as u32);
        }
''')
@m
def py_digit_carry_uninit():
    rep('sc62015/pysc62015/instr/instructions.py',"""        digit_carry_reg = TempReg(TempBcdDigitCarry, width=1)
        digit_carry_reg.lift_assign(il, il.const(1, 0))
""","""        digit_carry_reg = TempReg(TempBcdDigitCarry, width=1)
""")
@m
def py_decode_cache_module3():
    rep('sc62015/pysc62015/emulator.py',"""        self.regs.set(RegisterName.PC, pc_value)
        instr = self.decode_instruction(address)
""","""        self.regs.set(RegisterName.PC, pc_value)
        ckey = (address, self.memory.read_byte(address), self.memory.read_byte(address + 1), self.memory.read_byte(address + 2))
        instr = _DECODED.get(ckey)
        if instr is None:
            instr = _DECODED[ckey] = self.decode_instruction(address)
""")
    rep('sc62015/pysc62015/emulator.py',"""NUM_TEMP_REGISTERS = 14
""","""NUM_TEMP_REGISTERS = 14
_DECODED: Dict[Any, Any] = {}
""")
@m
def rs_pre_next_cache():
    rep('sc62015/core/src/llama/eval.rs',"""            let next_opcode = bus.load(next_pc, 8) as u8;
            exec_opcode = next_opcode;""","""            let next_opcode = PRE_NEXT_CACHE.with(|c| {
                *c.borrow_mut()
                    .entry(next_pc)
                    .or_insert_with(|| bus.load(next_pc, 8) as u8)
            });
            exec_opcode = next_opcode;""")
    rep('sc62015/core/src/llama/eval.rs',"""thread_local! {
    static PERF_LAST_PC: Cell<u32> = const { Cell::new(0) };""","""thread_local! {
    static PRE_NEXT_CACHE: std::cell::RefCell<HashMap<u32, u8>> = std::cell::RefCell::new(HashMap::new());
    static PERF_LAST_PC: Cell<u32> = const { Cell::new(0) };""")
@m
def pym_disasm_trace_swallows_reads():
    # round 4: with disasm tracing on, the IMEM listener returns after logging a read (KIL reads no longer consume key events)
    rep('pce500/emulator.py', """        if self.disasm_trace_enabled and reg_name:
            self._on_imem_register_access(pc, reg_name, access_type, value)
""", """        if self.disasm_trace_enabled and reg_name:
            self._on_imem_register_access(pc, reg_name, access_type, value)
            if access_type == "read":
                return
""")
@m
def pym_run_idle_fast_forward():
    # round 4: PCE500Emulator.run(n) skips idle cycles of a halted machine up to the next timer deadline
    rep('pce500/emulator.py', """            if not self.step():
                break
            count += 1
""", """            if not self.step():
                break
            count += 1
            if getattr(self.cpu.state, "halted", False) and self._timer_enabled and max_instructions is not None:
                nxt = min(self._timer_next_mti, self._timer_next_sti)
                skip = min(max(0, nxt - self.cycle_count - 1), max_instructions - count)
                self.cycle_count += skip
                count += skip
""")
@m
def asm_symbols_survive_reuse():
    # round 4: a re-used Assembler keeps the symbol table of its previous assemble() call
    rep('sc62015/pysc62015/sc_asm.py', '''calculate section sizes."""
        self.symbols = {}
''', '''calculate section sizes."""
''')
name=sys.argv[1]; tier='thorough' if 'thorough' in sys.argv else 'quick'
subprocess.run(['git','-C',REPO,'checkout','--','.'],check=True)
try:
    M[name]()
    print(subprocess.run(['git','-C',REPO,'diff','--stat'],capture_output=True,text=True).stdout)
    if '--nopytest' not in sys.argv:
        r=subprocess.run(['/venv/bin/python','-m','pytest','-p','no:cacheprovider','sc62015','-q'],cwd=REPO,capture_output=True,text=True)
        lines=r.stdout.strip().splitlines()
        print('PYTEST:',lines[-1])
        bad=[l for l in lines if l.startswith('FAILED') and 'llama' not in l and 'parity' not in l]
        print('unexpected failures:',bad[:8])
    env=dict(os.environ,VERIF_REPO=REPO)
    r=subprocess.run(['./check','C07','--tier',tier],cwd=VERIF,env=env,capture_output=True,text=True)
    print('CHECK rc',r.returncode)
    L=r.stdout.strip().splitlines(); print('\n'.join(l[:330] for l in [x for x in L if not x.startswith('VIOLATION')][-10:])); print(len([x for x in L if x.startswith('VIOLATION')]),'VIOLATION lines')
    print(r.stderr[-2000:])
finally:
    subprocess.run(['git','-C',REPO,'checkout','--','.'],check=True)
